#!/usr/bin/env python3
"""Checks of the engine family (C01 C02 C03 C06 C08 C09): Dataflow.tla predicts, hgv_engine runs the compiled
working tree, EngineTrace.tla validates the recorded traces.

usage: check_engine.py <Cxx> [--tier quick|thorough] [--replay <scenario file>]
"""
import argparse
import json
import os
import random
import sys

sys.path.insert(0, os.path.dirname(os.path.abspath(__file__)))
import check_wiring
import dfcheck
import hg
import programs as P
import tracecheck


def enum_family(cfg, chk, label):
    """TLC enumerates the bounded program family and predicts each program's observables."""
    res = hg.tlc("MCDataflowEnum", cfg, timeout=3600, metatag=label)
    if res.violation:
        raise hg.MachineryError("Dataflow.tla violates its own invariants on the enumerated family:\n" + res.violation)
    chk.add_tlc(res, label)
    out = []
    for k, pred in enumerate(hg.printed_json(res, "PRED")):
        prog = pred["prog"]
        prog["id"] = 100000 + k
        out.append((prog, pred))
    return out


def rand_family(rng, n, base, chk, label, **kw):
    progs = [P.random_program(rng, base + i, **kw) for i in range(n)]
    preds, res = dfcheck.predict(progs, tag=label)
    chk.add_tlc(res, label)
    return [(p, preds[p["id"]]) for p in progs]


class Case:
    __slots__ = ("prog", "pred", "scn", "what", "events", "key")

    def __init__(self, prog, pred, scn, what):
        self.prog, self.pred, self.scn, self.what = prog, pred, scn, what
        self.events = None
        self.key = None


def execute(cases):
    traces = hg.run_driver("engine", [c.scn for c in cases])
    for c, tr in zip(cases, traces):
        c.events = tr


def validate(cases, chk, tag):
    items = []
    for k, c in enumerate(cases):
        if isinstance(c.events, dict):  # crashed
            continue
        if c.what.startswith("ref-result"):   # programs with references: EngineTrace does not model them (Dataflow does)
            continue
        items.append({"id": k, "prog": P.to_json_programs([c.prog])[0], "ev": c.events})
    verdicts, st, tr = tracecheck.validate("EngineTrace", "EngineTrace.cfg", items, tag)
    chk.coverage["states"] += st
    chk.coverage["transitions"] += tr
    chk.coverage["traces_validated_against_impl"] += len(items)
    return verdicts


def replay_text(c, why):
    return "# %s\n# %s\n%s\n" % (c.what, why.replace("\n", " "), c.scn)


def judge(pid, cases, verdicts, chk, own_prefixes, stream_is_mine=True):
    """Turn per-case outcomes into violations of property pid.
    own_prefixes: clause prefixes of the trace spec that belong to pid; other rejected clauses are reported as
    notes (the check of the property they belong to raises them)."""
    other = {}
    for k, c in enumerate(cases):
        chk.count({"scn": c.scn})
        if isinstance(c.events, dict):
            chk.violation("crash:" + c.what, "driver crashed or hung on this scenario: %s" % json.dumps(c.events)[:400],
                          replay_text(c, "crash"))
            continue
        diff = dfcheck.compare(c.prog, c.pred, c.events)
        if diff and stream_is_mine:
            chk.violation("stream:" + c.what, "real run differs from spec/Dataflow.tla: " + diff, replay_text(c, diff))
        elif diff:
            other["stream"] = other.get("stream", 0) + 1
        acc, why = verdicts.get(k, (0, "" if c.what.startswith("ref-result") else "trace.missing"))
        if why:
            if why.startswith(tuple(own_prefixes)):
                ev = c.events_kept[acc] if hasattr(c, "events_kept") else None
                chk.violation("trace:%s:%s" % (why, c.what),
                              "EngineTrace.tla rejects the recorded trace at event %d: %s" % (acc + 1, why),
                              replay_text(c, why))
            else:
                other[why] = other.get(why, 0) + 1
    if other:
        chk.notes.setdefault("rejections_belonging_to_other_properties", {}).update(other)
        for w, n in sorted(other.items()):
            print("NOTE: %d trace(s) rejected by clause %s (decided by that property's own check)" % (n, w))


# ------------------------------------------------------------------------------------------------ C03
def check_c03(chk, rng):
    fam = enum_family("DataflowEnum3.cfg" if chk.tier == "quick" else "DataflowEnum4.cfg", chk, "enum")
    chk.coverage["exhaustive"] = True
    fam += rand_family(rng, 300 if chk.tier == "quick" else 5000, 1, chk, "rand", max_nodes=7, horizon=7)
    cases = [Case(p, pred, P.render(p), "flat") for p, pred in fam]
    execute(cases)
    verdicts = validate(cases, chk, "c03")
    judge("C03", cases, verdicts, chk, ("C03.", "C04.consumer"))
    # an active and a passive usage of the very same definition over the same sources in one graph: ticks on the passive
    # input alone must not run the passive usage, and must run the active one
    check_sharing(chk, rng, only=("passive-second", "passive-first", "passive-cross"), prefix="passive-usage")
    for c in cases[:1] + cases[-2:]:
        chk.sample({"scenario": c.scn.splitlines(), "predicted": c.pred.get("writes"), "trace_events": len(c.events)})
    chk.coverage["rule"] = ("programs: every DAG over the vocabulary with <= %s source/compute nodes x 5 tick histories x start times "
                            "(enumerated by TLC in MCDataflowEnum) plus seeded random programs of <= 7 nodes; each program is run by the "
                            "native driver on the compiled tree; distinct = distinct scenario text; non-trivial = the program "
                            "produces at least one cycle (all do)") % ("3" if chk.tier == "quick" else "4")


# ------------------------------------------------------------------------------------------------ C01
def struct_program(rng, pid, horizon):
    """a consumer that reads through a list path [outside producer, deep member] (either order): inside a sub-graph the
    first becomes a boundary leaf, the second a locally produced one - each leaf must contribute its producer to the rank"""
    nodes = [P.node("src", script=P.gen_script(rng, horizon, maxlen=5))]
    if rng.random() < 0.5:
        nodes.append(P.node("src", script=P.gen_script(rng, horizon, maxlen=4)))
    nsrc = len(nodes)
    prev = 1
    members = []
    for _ in range(rng.randint(2, 3)):
        nodes.append(P.node(rng.choice(["pass", "add", "acc", "count"]), ins=[prev], k=rng.randint(1, 2)))
        prev = len(nodes)
        members.append(prev)
    outside = rng.randint(1, nsrc)
    ins = [outside, prev] if rng.random() < 0.7 else [prev, outside]
    nodes.append(P.node(rng.choice(["lsum", "lsumv", "lsum"]), ins=ins))
    members.append(len(nodes))
    cons = len(nodes)
    nodes.append(P.node("rec", ins=[cons]))
    nodes.append(P.node("rec", ins=[prev]))          # the deep member is also read outside?  no: keep one external reader only
    nodes.pop()
    p = P.program(pid, nodes, start=1, end=horizon + 1)
    ext = []
    for i in members:
        for j in nodes[i - 1]["ins"]:
            if j not in members and j not in ext:
                ext.append(j)
    p["_group"] = (members, ext, cons)
    return p


def check_c01(chk, rng):
    n = 250 if chk.tier == "quick" else 3000
    fam = rand_family(rng, n, 1, chk, "rand", max_nodes=8, horizon=6)
    cases = []
    sprogs = [struct_program(rng, 50000 + i, rng.choice([5, 6])) for i in range(60 if chk.tier == "quick" else 800)]
    spreds, sres = dfcheck.predict(sprogs, tag="c01struct")
    chk.add_tlc(sres, "structural-sources")
    for p in sprogs:
        g = p["_group"]
        for mode, depth in (("inline", 1), ("nested", 1), ("nested", 2)):
            cases.append(Case(p, spreds[p["id"]], P.render(p, group=g, mode=mode, depth=depth), "struct-%s/%d" % (mode, depth)))
        if len(g[1]) == 2:
            cases.append(Case(p, spreds[p["id"]], P.render(p, group=g, mode="nested", depth=1, outer=(g[1][0],)), "struct-nested/1+captured"))
    for p, pred in fam:
        cases.append(Case(p, pred, P.render(p), "flat"))
        gs = P.candidate_groups(p)
        rng.shuffle(gs)
        for g in gs[:2]:
            for mode, depth in (("nested", 1), ("inline", 1), ("nested", 2)):
                cases.append(Case(p, pred, P.render(p, group=g, mode=mode, depth=depth), "%s/%d" % (mode, depth)))
        for o in P.admissible_orders(p, limit=2, rng=rng):
            cases.append(Case(p, pred, P.render(p, order=o), "order"))
    # explicit rank dependencies: a node is declared to be evaluated after another one although no data flows between
    # them - also a source without inputs, also when it was wired first
    rprogs = []
    for k in range(30 if chk.tier == "quick" else 400):
        horizon = rng.choice([5, 6])
        nodes = [P.node("src", script=P.gen_script(rng, horizon, maxlen=5)), P.node("pass", ins=[1]),
                 P.node("timer", k=1, cnt=horizon), P.node("rec", ins=[3]), P.node(rng.choice(["add", "acc"]), ins=[1], k=1),
                 P.node("count", ins=[1]), P.node("rec", ins=[5]), P.node("rec", ins=[6])]
        p = P.program(60000 + k, nodes, start=1, end=horizon + 1)
        p["rankdeps"] = [[3, 2], [5, 6]] if rng.random() < 0.7 else [[3, 6], [5, 2]]
        rprogs.append(p)
    rpreds, rres = dfcheck.predict(rprogs, tag="c01rank")
    chk.add_tlc(rres, "rank-dependencies")
    for p in rprogs:
        orders = [[3, 1, 2, 4, 5, 6, 7, 8], [1, 5, 3, 2, 6, 4, 7, 8], list(range(1, 9))]
        cases.append(Case(p, rpreds[p["id"]], P.render(p, order=rng.choice(orders)), "rankdep"))
    execute(cases)
    # static part: compiled edges point forward in rank
    for c in cases:
        if isinstance(c.events, dict):
            continue
        for e in c.events:
            if e["e"] == "gedge" and not e["src"] < e["dst"]:
                chk.violation("edge:" + c.what, "compiled edge %d -> %d does not point forward in rank" % (e["src"], e["dst"]),
                              replay_text(c, "edge"))
    verdicts = validate(cases, chk, "c01")
    judge("C01", cases, verdicts, chk, ("C01.",), stream_is_mine=False)
    check_cyclic_wiring(chk, rng)
    check_dynamic_children(chk, rng)
    check_wiring.run(chk, rng)
    for c in cases[:2]:
        chk.sample({"scenario": c.scn.splitlines(), "trace_events": len(c.events)})
    chk.coverage["rule"] = ("random DAG programs (fan-in, fan-out, diamonds) presented flat, with a sub-range nested / inlined / doubly "
                            "nested, and in permuted statement orders; plus cyclic wirings that must be rejected at build time; "
                            "distinct = distinct scenario text")


def check_dynamic_children(chk, rng):
    """C01 for dynamically created child graphs: mesh_ instances that pause in the middle of their cycle and are resumed,
    map_ children created / removed by key, switch_ branches - validated by spec/OrderTrace.tla."""
    scns = []
    n = 60 if chk.tier == "quick" else 800
    for k in range(n):
        nk = rng.randint(2, 5)
        horizon = rng.choice([4, 5, 6])
        vals, links = {}, {}
        for t in range(1, horizon + 1):
            v = ["%d=%d" % (key, rng.choice([1, 2, 3, 10])) for key in range(1, nk + 1) if rng.random() < (0.8 if t == 1 else 0.35)]
            if v:
                vals[t] = v
            # links only point to lower keys: no dependency cycle between instances
            ln = ["%d=%d" % (key, rng.randint(1, key - 1)) for key in range(2, nk + 1) if rng.random() < (0.6 if t == 1 else 0.2)]
            if ln:
                links[t] = ln
        if not vals:
            vals[1] = ["1=1"]
        pre = rng.choice([["n 10 count in=a0"], ["n 10 acc in=a0"], ["n 9 add k=1 in=a0", "n 10 acc in=9"], ["n 9 pass in=a0", "n 10 count in=9"]])
        lines = ["scn mesh%d" % k, "opt start=1 end=%d" % (horizon + 1), "graph g0 nin=2"] + pre + [
            "n 11 meshref in=a1", "n 12 dflt0 in=11", "n 13 sum2 in=10,12", "out 13", "endgraph", "graph root",
            "n 1 dsrc script=" + ";".join("%d:%s" % (t, ",".join(v)) for t, v in sorted(vals.items())),
            "n 2 dsrc script=" + (";".join("%d:%s" % (t, ",".join(v)) for t, v in sorted(links.items())) or "99:1=1"),
            "n 3 mesh g=0 in=1,2", "n 4 drec in=3", "endgraph", "run"]
        scns.append("\n".join(lines))
    for k in range(n // 2):
        keys = [1, 2, 3]
        horizon = 6
        ops = {}
        present = set()
        for t in range(1, horizon + 1):
            o = []
            for key in keys:
                r = rng.random()
                if key in present and r < 0.25:
                    o.append("-%d" % key)
                    present.discard(key)
                elif r < 0.6:
                    o.append("%d=%d" % (key, rng.randint(1, 5)))
                    present.add(key)
            if o:
                ops[t] = o
        if not ops:
            continue
        lines = ["scn mapo%d" % k, "opt start=1 end=%d" % (horizon + 1), "graph g0 nin=1", "n 10 acc in=a0", "n 11 delay d=1 in=10", "out 11", "endgraph",
                 "graph root", "n 1 dsrc script=" + ";".join("%d:%s" % (t, ",".join(v)) for t, v in sorted(ops.items())),
                 "n 3 map g=0 in=1", "n 4 drec in=3", "n 5 reduce in=3 comb=add", "n 6 rrec in=5,3", "endgraph", "run"]
        scns.append("\n".join(lines))
    traces = hg.run_driver("engine", scns)
    items = []
    for k, (scn, tr) in enumerate(zip(scns, traces)):
        chk.count({"scn": scn})
        if isinstance(tr, dict):
            chk.violation("dyn:crash", "driver crashed/hung on a dynamic-children scenario: %s" % json.dumps(tr)[:300], scn)
            continue
        bad = [e for e in tr if e["e"] in ("wirefail", "harnessfail")]
        ret = [e for e in tr if e["e"] == "ret"]
        if bad or not ret or ret[0]["ok"] != 1:
            chk.violation("dyn:run", "dynamic-children scenario did not run: %s" % (bad or ret), scn)
            continue
        items.append({"id": k, "prog": {}, "ev": tr})
    verdicts, st, trn = tracecheck.validate("OrderTrace", "OrderTrace.cfg", items, "c01dyn",
                                            keep={"gstart", "gstopped", "nstart", "cycle", "eval", "ret"})
    chk.coverage["states"] += st
    chk.coverage["transitions"] += trn
    chk.coverage["traces_validated_against_impl"] += len(items)
    for it in items:
        acc, why = verdicts[it["id"]]
        if why:
            chk.violation("dyn:%s" % why, "OrderTrace.tla rejects the trace at event %d: %s" % (acc + 1, why), "# %s\n%s\n" % (why, scns[it["id"]]))
    chk.notes["dynamic_children_scenarios"] = len(scns)


def check_cyclic_wiring(chk, rng):
    """A dependency cycle not broken by a feedback must be rejected when the graph is built."""
    scns = []
    for k in range(6 if chk.tier == "quick" else 40):
        ln = rng.randint(1, 4)
        lines = ["scn cyc%d" % k, "opt start=1 end=5", "graph root", "n 1 src script=1:1;2:2", "n 2 dly"]
        prev = 2
        for j in range(ln):
            lines.append("n %d %s in=%d%s" % (3 + j, rng.choice(["pass", "acc", "add"]), prev, ""))
            prev = 3 + j
        lines.append("n %d sum2 in=1,%d" % (3 + ln, prev))
        lines.append("bind 2 %d" % (3 + ln))
        lines.append("n %d rec in=%d" % (4 + ln, 3 + ln))
        lines += ["endgraph", "run"]
        scns.append("\n".join(lines))
    # a cycle made of data edges and ONE explicit rank dependency (on a source without inputs, on a compute node)
    for k in range(4 if chk.tier == "quick" else 20):
        ln = rng.randint(1, 3)
        first = rng.choice(["n 1 timer p=1 cnt=3", "n 1 src script=1:1;2:2"])
        lines = ["scn cycr%d" % k, "opt start=1 end=5", "graph root", first]
        prev = 1
        for j in range(ln):
            lines.append("n %d %s in=%d" % (2 + j, rng.choice(["pass", "acc", "add"]), prev))
            prev = 2 + j
        lines += ["n %d rec in=%d" % (2 + ln, prev), "rankdep %d %d" % (rng.randint(1, max(1, prev - 1)) if rng.random() < 0.5 else 1, prev), "endgraph", "run"]
        scns.append("\n".join(lines))
    traces = hg.run_driver("engine", scns)
    for scn, tr in zip(scns, traces):
        chk.count({"scn": scn})
        if isinstance(tr, dict):
            chk.violation("cyclic:crash", "driver crashed on a cyclic wiring", scn)
            continue
        kinds = [e["e"] for e in tr]
        if "wirefail" not in kinds or "cycle" in kinds:
            chk.violation("cyclic:not-rejected", "a wiring whose dependencies form a cycle (no feedback) was built and run", scn)
    chk.notes["cyclic_wirings_rejected"] = len(scns)


# ------------------------------------------------------------------------------------------------ C02
def check_c02(chk, rng):
    n = 400 if chk.tier == "quick" else 5000
    progs = []
    for i in range(n):
        p = P.random_program(rng, i + 1, max_nodes=6, horizon=rng.choice([5, 7, 9]),
                             kinds=("delay", "echo", "echo", "pass", "acc", "sum2", "sample", "sumu", "sample2", "lsum"))
        for nd in p["nodes"]:
            if nd["kind"] == "src" and rng.random() < 0.5:
                nd["mode"] = "all"
        p["start"] = rng.choice([1, 1, 2, 3])
        p["end"] = rng.choice([p["end"], p["end"] - 2, p["end"] + 2])
        if p["end"] <= p["start"]:
            p["end"] = p["start"] + 2
        progs.append(p)
    preds, res = dfcheck.predict(progs, tag="c02")
    chk.add_tlc(res, "wakeups")
    cases = []
    for p in progs:
        cases.append(Case(p, preds[p["id"]], P.render(p), "flat"))
        gs = [g for g in P.candidate_groups(p) if any(p["nodes"][i - 1]["kind"] in ("delay", "timer", "src") for i in g[0])]
        rng.shuffle(gs)
        for g in gs[:1]:
            cases.append(Case(p, preds[p["id"]], P.render(p, group=g, mode="nested", depth=rng.choice([1, 2])), "nested"))
    execute(cases)
    verdicts = validate(cases, chk, "c02")
    judge("C02", cases, verdicts, chk, ("C02.",), stream_is_mine=False)
    # cycle times: every predicted cycle must occur; extra cycles only at withdrawn times (EngineTrace decides that)
    for c in cases:
        if isinstance(c.events, dict):
            continue
        _, cyc, _, _ = P.observed(c.events)
        miss = [t for t in c.pred["cycles"] if t not in cyc]
        if miss:
            chk.violation("cycles:" + c.what, "requested wake-up times %s got no cycle (cycles %s)" % (miss, cyc), replay_text(c, "missing cycle"))
    stale = sum(1 for c in cases if not isinstance(c.events, dict) and set(P.observed(c.events)[1]) - set(c.pred["cycles"]))
    chk.notes["runs_with_cycles_at_withdrawn_times"] = stale
    for c in cases[:2]:
        chk.sample({"scenario": c.scn.splitlines(), "predicted_cycles": c.pred["cycles"]})
    # schedule tables of every live graph at the end of every root cycle (SlotTrace.tla): the root's cached next time
    # covers every pending entry, the next cycle comes no later than it
    import slotcheck
    slotcheck.run(chk, "C02", rng, 240 if chk.tier == "quick" else 2000, ("C02.",))
    # wake-ups inside a sub-graph whose cycles can be cut short by a captured exception: behaviours of AbortScan.tla replayed
    # (the model itself and its named faults are checked by C15)
    import abort_model
    abort_model.run(chk, rng, own=("C02.",), nsim=100 if chk.tier == "quick" else 1500, models=False)
    # level B of the simulation run loop + the root schedule table (SimExecutor.tla: model-checked with its named faults; its
    # behaviours replayed, the real cycles / evaluated nodes / cached next time / schedule table compared per cycle; SimTrace.tla
    # - level A - judges the requests read from the real trace against the real cycles)
    import sim_model
    sim_model.run(chk, rng)
    chk.coverage["rule"] = ("random programs rich in wake-ups (scripted sources scheduling one-at-a-time or all at start, timers, "
                            "tagged delays that replace their pending time, inside nested children at depth 1-2), start in {1,2,3}, end before / "
                            "after the last request; distinct = distinct scenario text")


# ------------------------------------------------------------------------------------------------ C06
def check_c06(chk, rng):
    n = 150 if chk.tier == "quick" else 2000
    fam = rand_family(rng, n, 1, chk, "rand", max_nodes=7, horizon=6)
    cases, groups = [], []
    for p, pred in fam:
        orders = list(P.admissible_orders(p, limit=6 if chk.tier == "quick" else 24, rng=rng))
        idx = []
        for o in orders:
            idx.append(len(cases))
            cases.append(Case(p, pred, P.render(p, order=o), "order"))
        groups.append(idx)
    execute(cases)
    for idx in groups:
        base = None
        for k in idx:
            c = cases[k]
            chk.count({"scn": c.scn})
            if isinstance(c.events, dict):
                chk.violation("crash", "driver crashed", replay_text(c, "crash"))
                continue
            w, cyc, errs, ret = P.observed(c.events)
            obs = (sorted(w.items()), ret.get("ok") if ret else None)
            diff = dfcheck.compare(c.prog, c.pred, c.events)
            if diff:
                chk.violation("stream:order", "statement order %s: %s" % (c.scn.splitlines()[3:-2], diff), replay_text(c, diff))
            if base is None:
                base = (obs, c)
            elif obs != base[0]:
                chk.violation("order-differs", "two admissible statement orders of the same dataflow produce different streams",
                              replay_text(c, "differs from order of " + base[1].scn.replace("\n", " | ")))
    check_forward_references(chk, rng)
    check_sharing(chk, rng)
    verdicts = validate(cases[:200], chk, "c06")
    chk.coverage["rule"] = ("each random program is wired in up to %d admissible statement orders; all must produce the streams "
                            "Dataflow.tla predicts (and therefore the same); sharing scenarios wire duplicated sub-expressions "
                            "with equal / different scalars and inputs and duplicated sinks") % (6 if chk.tier == "quick" else 24)
    for c in cases[:2]:
        chk.sample({"scenario": c.scn.splitlines()})


def check_forward_references(chk, rng):
    """consumer-first statement orders: the consumer is wired against a delayed binding (a scalar port, or a whole
    two-element list) that is resolved after its producers were wired - same dataflow, same streams"""
    progs, scns = [], []
    for k in range(24 if chk.tier == "quick" else 300):
        horizon = 6
        s1 = P.gen_script(rng, horizon, maxlen=4)
        k2, k3 = rng.randint(1, 3), rng.randint(1, 3)
        kind3 = rng.choice(["add", "acc", "delay"])
        listy = k % 2 == 0
        nodes = [P.node("src", script=s1), P.node("add", ins=[1], k=k2), P.node(kind3, ins=[2], k=k3)]
        nodes.append(P.node("lsum", ins=[2, 3]) if listy else P.node("add", ins=[3], k=1))
        nodes.append(P.node("rec", ins=[4]))
        p = P.program(9900 + k, nodes, start=1, end=horizon + 1)
        progs.append(p)
        par3 = (" k=%d" % k3) if kind3 == "add" else (" d=%d" % k3) if kind3 == "delay" else ""
        prod = ["n 2 add k=%d in=1" % k2, "n 3 %s%s in=2" % (kind3, par3)]
        if listy:
            cons, bind = ["n 9 dlyl", "n 4 lsuml in=9", "n 5 rec in=4"], "bind 9 2,3"
        else:
            cons, bind = ["n 9 dly", "n 4 add k=1 in=9", "n 5 rec in=4"], "bind 9 3"
        src = "n 1 src script=" + ";".join("%d:%d" % (t, v) for t, v in s1)
        body = rng.choice([[src] + cons + prod, cons + [src] + prod, [src, prod[0]] + cons + [prod[1]]])
        scns.append("\n".join(["scn fwd%d" % k, "opt start=1 end=%d" % (horizon + 1), "graph root"] + body + [bind, "endgraph", "run"]))
    preds, res = dfcheck.predict(progs, tag="c06fwd")
    chk.add_tlc(res, "forward-references")
    traces = hg.run_driver("engine", scns)
    for p, scn, tr in zip(progs, scns, traces):
        chk.count({"scn": scn})
        if isinstance(tr, dict) or any(e["e"] in ("wirefail", "harnessfail") for e in tr):
            chk.violation("fwd:run", "consumer-first wiring crashed or could not be wired", scn)
            continue
        diff = dfcheck.compare(p, preds[p["id"]], tr)
        if diff:
            chk.violation("fwd:stream", "the consumer wired first through a delayed binding: " + diff, "# C06 consumer-first order\n" + scn + "\n")
    chk.coverage["traces_validated_against_impl"] += len(scns)


def check_sharing(chk, rng, only=None, prefix="share"):
    """Equal (definition, inputs, scalars) may share one instance without changing any output; statements differing in
    an input, a scalar, or in how an input is used (a passive usage), and every sink, must stay distinct.  The two
    statements are wired with `sameas`, i.e. literally the same definition and the same scalar values; what differs is
    chosen per scenario.  Whatever is shared, every recorder must see the stream Dataflow.tla specifies."""
    progs, scns, kinds = [], [], []
    variants = ["same", "diff-input", "diff-scalar", "passive-second", "passive-first", "passive-cross", "dup-sink"]
    if only:
        variants = [v for v in variants if v in only]
    for k in range((60 if chk.tier == "quick" else 600) if not only else (18 if chk.tier == "quick" else 150)):
        var = variants[k % len(variants)]
        horizon = 6
        s1 = P.gen_script(rng, horizon, maxlen=3)
        s2 = P.gen_script(rng, horizon, maxlen=4, values=(10, 20, 30))
        kind = "sum2" if var == "passive-cross" else rng.choice(["sum2", "sumu"]) if var.startswith("passive") else rng.choice(["add", "delay", "sum2"])
        ka = rng.randint(1, 3)
        kb = ka if var != "diff-scalar" else ka + 1
        if var == "diff-scalar" and kind == "sum2":
            kind = "add"
        nodes = [P.node("src", script=s1), P.node("src", script=s2)]
        two = kind in ("sum2", "sumu")
        insA = [1, 2] if two else [1]
        insB = ([1, 1] if two else [2]) if var == "diff-input" else list(insA)
        nodes.append(P.node(kind, ins=insA, k=ka))          # 3
        nodes.append(P.node(kind, ins=insB, k=kb))          # 4
        nodes += [P.node("rec", ins=[3]), P.node("rec", ins=[4])]   # 5, 6
        if var == "dup-sink":
            nodes.append(P.node("rec", ins=[3]))            # 7: a second, identical sink
        p = P.program(k + 1, nodes, start=1, end=horizon + 1)
        # the specification of a passive usage: the consumer is not activated by that input
        if var == "passive-second":
            nodes[3]["kind"] = "sample2" if kind == "sum2" else "sampleu"
        if var == "passive-first":
            nodes[2]["kind"] = "sample2" if kind == "sum2" else "sampleu"
        if var == "passive-cross":     # the two usages declare DIFFERENT inputs passive
            nodes[2]["kind"] = "psum2a"
            nodes[3]["kind"] = "sample2"
        progs.append(p)
        kinds.append(var)
        script = lambda s: ";".join("%d:%d" % (t, v) for t, v in s)
        par = ("k=%d" if kind == "add" else "d=%d") if kind in ("add", "delay") else ""
        refA = ",".join(str(x) for x in insA)
        refB = ",".join(str(x) for x in insB)
        if var == "passive-second":
            refB = "%d,p:%d" % (insB[0], insB[1])
        if var == "passive-first":
            refA = "%d,p:%d" % (insA[0], insA[1])
        if var == "passive-cross":
            refA = "p:%d,%d" % (insA[0], insA[1])
            refB = "%d,p:%d" % (insB[0], insB[1])
        stA = "n 3 %s %s in=%s" % (kind, (par % ka) if par else "", refA)
        stB = "n 4 %s %s in=%s%s" % (kind, (par % kb) if par else "", refB, "" if var == "diff-scalar" else " sameas=3")
        lines = ["scn share%d-%s" % (k, var), "opt start=1 end=%d" % (horizon + 1), "graph root", "n 1 src script=" + script(s1),
                 "n 2 src script=" + script(s2), stA, stB, "n 5 rec in=3", "n 6 rec in=4"]
        if var == "dup-sink":
            lines.append("n 7 rec in=3 sameas=5")
        lines += ["endgraph", "run"]
        if rng.random() < 0.5 and var != "dup-sink":   # the other statement first
            lines[5], lines[6] = lines[6].replace(" sameas=3", ""), lines[5] + ("" if var == "diff-scalar" else " sameas=4")
        scns.append("\n".join(lines))
    # the same definition with equal scalars on two different elements of ONE producer's list output: the inputs differ
    # (only) in the path below the producer, so the two statements must stay distinct
    recs_of = {}
    for k in range(0 if only else (12 if chk.tier == "quick" else 150)):
        horizon = 6
        s1 = P.gen_script(rng, horizon, maxlen=3)
        s2 = P.gen_script(rng, horizon, maxlen=4, values=(10, 20, 30))
        kind = rng.choice(["add", "delay", "acc", "count"])
        ka = rng.randint(1, 2)
        nodes = [P.node("src", script=s1), P.node("src", script=s2), P.node("elem0", ins=[1, 2]), P.node("elem1", ins=[1, 2]),
                 P.node(kind, ins=[3], k=ka), P.node(kind, ins=[4], k=ka), P.node("rec", ins=[5]), P.node("rec", ins=[6])]
        nodes[2]["pack"] = nodes[3]["pack"] = 1
        p = P.program(9000 + k, nodes, start=1, end=horizon + 1)
        script = lambda s: ";".join("%d:%d" % (t, v) for t, v in s)
        par = (" k=%d" % ka) if kind == "add" else (" d=%d" % ka) if kind == "delay" else ""
        lines = ["scn share%d-diff-element" % k, "opt start=1 end=%d" % (horizon + 1), "graph root", "n 1 src script=" + script(s1),
                 "n 2 src script=" + script(s2), "n 900 pack2 in=1,2", "n 3 elem in=900 i=0", "n 4 elem in=900 i=1",
                 "n 5 %s%s in=3" % (kind, par), "n 6 %s%s in=4 sameas=5" % (kind, par), "n 7 rec in=5", "n 8 rec in=6", "endgraph", "run"]
        if rng.random() < 0.5:
            lines[8], lines[9] = lines[9].replace(" sameas=5", ""), lines[8] + " sameas=6"
        progs.append(p)
        kinds.append("diff-element")
        scns.append("\n".join(lines))
        recs_of[p["id"]] = ((7, 5), (8, 6))
    # one list, several reductions that differ only in the (scalar) function: they must stay distinct
    for k in range(0 if only else (10 if chk.tier == "quick" else 120)):
        horizon = 6
        nodes = [P.node("src", script=P.gen_script(rng, horizon, maxlen=3, values=(1, 2, 3, 5, 8))) for _ in range(3)]
        combs = rng.sample(["lradd", "lrmin", "lrmax"], 3)
        for c in combs:
            nodes.append(P.node(c, ins=[1, 2, 3]))
        nodes += [P.node("rec", ins=[4]), P.node("rec", ins=[5]), P.node("rec", ins=[6])]
        p = P.program(9500 + k, nodes, start=1, end=horizon + 1)
        progs.append(p)
        kinds.append("diff-function")
        scns.append(P.render(p, name="share%d-diff-function" % k))
        recs_of[p["id"]] = ((7, 4), (8, 5), (9, 6))
    # two feedbacks of the same type and initial value: sources without inputs that look the same but must not be shared
    for k in range(0 if only else (8 if chk.tier == "quick" else 100)):
        p = twin_loops_program(rng, 9700 + k, 6)
        progs.append(p)
        kinds.append("twin-feedback")
        scns.append(P.render(p, name="share%d-twin-feedback" % k))
        recs_of[p["id"]] = ((7, 5), (8, 6), (9, 3), (10, 4))
    preds, res = dfcheck.predict(progs, tag="c06share")
    chk.add_tlc(res, "sharing")
    traces = hg.run_driver("engine", scns)
    for p, var, scn, tr in zip(progs, kinds, scns, traces):
        chk.count({"scn": scn})
        if isinstance(tr, dict):
            chk.violation("share:crash", "driver crashed", scn)
            continue
        bad = [e for e in tr if e["e"] in ("wirefail", "harnessfail")]
        if bad:
            chk.violation("share:wiring", "sharing scenario could not be wired: %s" % bad[0].get("msg"), scn)
            continue
        w, cyc, errs, ret = P.observed(tr)
        pw, _, _ = P.predicted(preds[p["id"]])
        for rid, nid in recs_of.get(p["id"], ((5, 3), (6, 4))):
            want = pw.get(rid, [])
            got = w.get(rid, [])
            if var == "dup-sink" and rid == 5:
                want = sorted(want + pw.get(7, []))     # both sinks are wired with id 5: each must record every tick
                got = sorted(got)
            if got != want:
                chk.violation("%s:%s" % (prefix, var),
                              "statement %d (%s): its consumer must see %s (Dataflow.tla), saw %s - sharing / distinctness changed an output"
                              % (nid, var, want, got), "# C06 sharing: %s\n%s\n" % (var, scn))
                break
        if var == "dup-sink":
            nrec = sum(1 for e in tr if e["e"] == "gnode" and e["name"] == "v_rec")
            if nrec != 3:
                chk.violation("share:sink-merged", "sink nodes were shared: %d recorder instances for 3 sink statements" % nrec, scn)
    chk.notes["sharing_scenarios"] = len(scns)


# ------------------------------------------------------------------------------------------------ C08
def fb_program(rng, pid, horizon):
    """a loop closed through a feedback: src -> combine(src, fb) -> ... -> bind; readers active or passive"""
    nodes = [P.node("src", script=P.gen_script(rng, horizon, maxlen=3))]
    nodes.append(P.node("fb", init=rng.choice([-1, 0, 2])))
    shape = rng.choice(["sum", "sample", "acc", "plain", "two"])
    if shape == "sum":      # active reader: re-ticks every step until the window ends
        nodes.append(P.node("sumu", ins=[1, 2]))
    elif shape == "sample":  # passive reader: quiescent
        nodes.append(P.node("sample", ins=[1, 2]))
        if nodes[1]["init"] == -1:
            nodes[1]["init"] = 1
    elif shape == "acc":
        nodes.append(P.node("sumu", ins=[1, 2]))
        nodes.append(P.node("add", ins=[3], k=1))
    elif shape == "plain":   # feedback of an independent stream: pure one-step delay
        nodes.append(P.node("add", ins=[1], k=rng.randint(1, 3)))
    else:
        nodes.append(P.node("sample", ins=[1, 2]))
        nodes[1]["init"] = 3
        nodes.append(P.node("delay", ins=[3], k=1))
    bindto = len(nodes)
    nodes[1]["bind"] = bindto
    nodes.append(P.node("rec", ins=[2]))
    nodes.append(P.node("rec", ins=[bindto]))
    if rng.random() < 0.4:
        nodes.append(P.node("count", ins=[2]))
        nodes.append(P.node("rec", ins=[len(nodes)]))
    return P.program(pid, nodes, start=rng.choice([1, 1, 2]), end=horizon + 1)


def twin_loops_program(rng, pid, horizon):
    """two independent accumulating loops whose feedbacks have the same type and the same initial value: each loop keeps its
    own state (a feedback is never shared with another one that merely looks the same)"""
    init = rng.choice([-1, 0, 0, 5])
    nodes = [P.node("src", script=P.gen_script(rng, horizon, maxlen=4)), P.node("src", script=P.gen_script(rng, horizon, maxlen=4, values=(10, 20, 30))),
             P.node("fb", init=init), P.node("fb", init=init), P.node("sampleu", ins=[1, 3]), P.node("sampleu", ins=[2, 4]),
             P.node("rec", ins=[5]), P.node("rec", ins=[6]), P.node("rec", ins=[3]), P.node("rec", ins=[4])]
    nodes[2]["bind"] = 5
    nodes[3]["bind"] = 6
    return P.program(pid, nodes, start=1, end=horizon + 1)


def check_dict_feedback(chk, rng):
    """feedback of a collection-shaped payload (dictionary deltas incl. removal-only and mixed deltas), validated by
    spec/FbDictTrace.tla: the reader sees exactly the written deltas one step later"""
    import check_ops
    scns = []
    for k in range(80 if chk.tier == "quick" else 1200):
        horizon = rng.choice([6, 8])
        hist = check_ops.dict_history(rng, [1, 2, 3, 4], horizon, maxops=3)
        if not hist:
            continue
        via_map = rng.random() < 0.4
        lines = ["scn dfb%d" % k, "opt start=1 end=%d" % (horizon + 1)]
        if via_map:
            lines += ["graph g0 nin=1", "n 10 acc in=a0", "out 10", "endgraph"]
        lines += ["graph root", "n 1 dsrc script=" + check_ops.dscript(hist)]
        src = 1
        if via_map:
            lines.append("n 5 map g=0 in=1")
            src = 5
        if k % 3 == 2:
            # a set-shaped payload: the key set of the dictionary (added / removed elements only; removal-only deltas)
            lines += ["n 6 skeys in=%d" % src, "n 2 sfb", "n 3 srec in=6", "n 4 srec in=2", "bind 2 6", "endgraph", "run"]
        else:
            lines += ["n 2 dfb", "n 3 drec in=%d" % src, "n 4 drec in=2", "bind 2 %d" % src, "endgraph", "run"]
        scns.append(("\n".join(lines), horizon + 1))
    traces = hg.run_driver("engine", [s for s, _ in scns])
    items = []
    for k, ((scn, end), tr) in enumerate(zip(scns, traces)):
        chk.count({"scn": scn})
        if isinstance(tr, dict) or any(e["e"] in ("wirefail", "harnessfail") for e in tr):
            chk.violation("dfb:run", "dictionary feedback scenario crashed or could not be wired", scn)
            continue
        # empty ticks of the written dictionary carry no delta to deliver (see C20 known finding F3): not presented
        ev = [e for e in tr if not (e["e"] == "drec" and not e["mod"] and not e["add"] and not e["rem"])]
        items.append({"id": k, "prog": {"writer": 3, "reader": 4, "end": end}, "ev": ev})
    verdicts, st, trn = tracecheck.validate("FbDictTrace", "FbDictTrace.cfg", items, "c08dict", keep={"drec", "ret"})
    chk.coverage["states"] += st
    chk.coverage["transitions"] += trn
    chk.coverage["traces_validated_against_impl"] += len(items)
    for it in items:
        acc, why = verdicts[it["id"]]
        if why:
            chk.violation("dfb:%s" % why, "FbDictTrace.tla rejects the trace at event %d: %s" % (acc + 1, why), "# %s\n%s\n" % (why, scns[it["id"]][0]))
    chk.notes["dictionary_feedback_scenarios"] = len(scns)


def check_passive_loop_next_to_active_twin(chk, rng):
    """the loop is closed through a PASSIVE reader of the feedback while the very same definition over the same sources
    (same scalars: `sameas`) is also wired with an active read - a monitor outside the loop.  The loop must still become
    quiescent; the monitor follows every feedback tick.  (Dataflow.tla: sample2 = sum2 with a passive second input.)"""
    progs, scns = [], []
    for k in range(24 if chk.tier == "quick" else 300):
        horizon = rng.choice([6, 8])
        s1 = P.gen_script(rng, horizon, maxlen=3)
        init = rng.choice([-1, 0, 4])
        nodes = [P.node("src", script=s1), P.node("fb", init=init), P.node("sum2", ins=[1, 2]), P.node("sample2", ins=[1, 2]),
                 P.node("rec", ins=[3]), P.node("rec", ins=[4])]
        nodes[1]["bind"] = 4
        p = P.program(9800 + k, nodes, start=1, end=horizon + 1)
        progs.append(p)
        lines = ["scn ploop%d" % k, "opt start=1 end=%d" % (horizon + 1), "graph root", "n 1 src script=" + ";".join("%d:%d" % (t, v) for t, v in s1),
                 "n 2 fb" + (" init=%d" % init if init != -1 else ""), "n 3 sum2 in=1,2", "n 4 sum2 in=1,p:2 sameas=3", "n 5 rec in=3", "n 6 rec in=4",
                 "bind 2 4", "endgraph", "run"]
        if rng.random() < 0.5:     # the passive usage first
            lines[5], lines[6] = "n 4 sum2 in=1,p:2", "n 3 sum2 in=1,2 sameas=4"
        scns.append("\n".join(lines))
    preds, res = dfcheck.predict(progs, tag="c08ploop")
    chk.add_tlc(res, "passive-loop")
    traces = hg.run_driver("engine", scns)
    for p, scn, tr in zip(progs, scns, traces):
        chk.count({"scn": scn})
        if isinstance(tr, dict) or any(e["e"] in ("wirefail", "harnessfail") for e in tr):
            chk.violation("ploop:run", "passive-loop scenario crashed or could not be wired", scn)
            continue
        # the two statements carry the same `id` scalar (sameas), so only the recorders tell them apart
        w, cyc, errs, ret = P.observed(tr)
        pw, _, _ = P.predicted(preds[p["id"]])
        for rid, what in ((5, "the active monitor"), (6, "the passive reader closing the loop")):
            if w.get(rid, []) != pw.get(rid, []):
                chk.violation("ploop:stream", "a loop closed through a passive reader next to an active twin of the same definition: %s must "
                              "see %s (Dataflow.tla), saw %s" % (what, pw.get(rid, []), w.get(rid, [])),
                              "# C08 passive loop with an active twin\n" + scn + "\n")
                break
    chk.coverage["traces_validated_against_impl"] += len(scns)


def check_structural_passive_reader(chk, rng):
    """a dictionary-shaped feedback read through passive(...) by an input that is declared structurally active (it would wake
    on key-set changes): the loop adds a key on every pass, so it goes quiet only if the reader really is passive.
    Level A is the statement itself: one evaluation of the writer per trigger tick, each delivered one step later."""
    scns, metas = [], []
    for k in range(12 if chk.tier == "quick" else 150):
        horizon = rng.choice([7, 9])
        ticks = P.gen_script(rng, horizon - 2, maxlen=3)
        scns.append("\n".join(["scn spr%d" % k, "opt start=1 end=%d" % (horizon + 1), "graph root",
                               "n 1 src script=" + ";".join("%d:%d" % (t, v) for t, v in ticks), "n 2 dfb", "n 3 dgrow in=1,2", "bind 2 3",
                               "n 4 drec in=2", "endgraph", "run"]))
        metas.append(ticks)
    traces = hg.run_driver("engine", scns)
    for scn, ticks, tr in zip(scns, metas, traces):
        chk.count({"scn": scn})
        if isinstance(tr, dict) or any(e["e"] in ("wirefail", "harnessfail") for e in tr):
            chk.violation("spr:run", "structurally active passive reader scenario crashed or could not be wired", scn)
            continue
        evals = [e["t"] for e in tr if e["e"] == "fn" and e["id"] == 3]
        deliv = [e["t"] for e in tr if e["e"] == "drec" and e["id"] == 4 and (e["mod"] or e["add"])]
        want_e = [t for t, v in ticks]
        if evals != want_e or deliv != [t + 1 for t in want_e]:
            chk.violation("spr:not-quiescent", "the loop's writer must run at the trigger ticks %s only and each write be delivered one step "
                          "later; it ran at %s, deliveries at %s" % (want_e, evals, deliv), "# C08 passive reader declared structurally active\n" + scn + "\n")
    chk.coverage["traces_validated_against_impl"] += len(scns)


def check_feedback_inside_try_except(chk, rng):
    """an accumulating loop inside a try_except sub-graph; a node ranked after the feedback's writer throws in some cycles.
    What was written in such a cycle is still delivered one step later - also when nothing else wakes the sub-graph then.
    Level A is the statement itself: S(t) = x(t) + S(previous tick), result 2*S(t) when S(t) >= 0, one error tick otherwise."""
    scns, metas = [], []
    for k in range(30 if chk.tier == "quick" else 400):
        horizon = rng.choice([7, 9])
        ticks = P.gen_script(rng, horizon, maxlen=4, values=(1, 2, -1, 3, -4, -6))
        scns.append("\n".join(["scn fbtry%d" % k, "opt start=1 end=%d" % (horizon + 1), "graph g0 nin=1", "n 20 fb", "n 21 sumu in=a0,p:20",
                               "bind 20 21", "n 22 throwneg in=21", "out 22", "endgraph", "graph root",
                               "n 1 src script=" + ";".join("%d:%d" % (t, v) for t, v in ticks), "n 8 tryexc g=0 in=1", "n 4 rec in=8",
                               "endgraph", "run"]))
        metas.append(ticks)
    traces = hg.run_driver("engine", scns)
    for scn, ticks, tr in zip(scns, metas, traces):
        chk.count({"scn": scn})
        if isinstance(tr, dict) or any(e["e"] in ("wirefail", "harnessfail") for e in tr):
            chk.violation("fbtry:run", "feedback inside try_except crashed or could not be wired", scn)
            continue
        total, want, errs = 0, [], []
        for t, v in ticks:
            total += v
            if total >= 0:
                want.append((t, 2 * total))
            else:
                errs.append((t, "neg %d" % total))
        got = [(e["t"], e["v"]) for e in tr if e["e"] == "rec" and e["id"] == 4]
        gote = [(e["t"], e["msg"]) for e in tr if e["e"] == "err"]
        if got != want or gote != errs:
            chk.violation("fbtry:stream", "a loop inside try_except: results %s and error ticks %s are required, observed %s and %s"
                          % (want, errs, got, gote), "# C08 feedback inside try_except\n" + scn + "\n")
    chk.coverage["traces_validated_against_impl"] += len(scns)


def check_map_feedback(chk, rng):
    """a feedback loop INSIDE every child of a map_: each key accumulates its own values through its own loop (passive
    reader); a delivery is due one step after the write - also when, in that cycle, the map is woken only by another
    key's tick.  Level A here is the statement itself: per key, written value k+1 = value + what was written before."""
    import check_ops
    scns, metas = [], []
    for k in range(60 if chk.tier == "quick" else 900):
        horizon = rng.choice([7, 9])
        hist = check_ops.dict_history(rng, [1, 2, 3], horizon, maxops=3)
        if not hist:
            continue
        lines = ["scn mapfb%d" % k, "opt start=1 end=%d" % (horizon + 1), "graph g0 nin=1", "n 20 fb", "n 21 sumu in=a0,p:20", "bind 20 21",
                 "out 21", "endgraph", "graph root", "n 1 dsrc script=" + check_ops.dscript(hist), "n 3 map g=0 in=1", "n 4 drec in=3",
                 "endgraph", "run"]
        scns.append("\n".join(lines))
        metas.append((hist, horizon))
    traces = hg.run_driver("engine", scns)
    for scn, (hist, horizon), tr in zip(scns, metas, traces):
        chk.count({"scn": scn})
        if isinstance(tr, dict) or any(e["e"] in ("wirefail", "harnessfail") for e in tr):
            chk.violation("mapfb:run", "map_ with an inner feedback loop crashed or could not be wired", scn)
            continue
        want = {}
        for key, lst in check_ops.intervals(hist, horizon).items():
            for (a, r, el) in lst:
                total = 0
                for t, v in el:
                    total += v
                    want.setdefault(t, []).append([key, total])
        got = {}
        for e in tr:
            if e["e"] == "drec" and e["id"] == 4 and e["mod"]:
                got[e["t"]] = sorted(e["mod"])
        want = {t: sorted(v) for t, v in want.items()}
        if want != got:
            tdiff = next(t for t in sorted(set(want) | set(got)) if want.get(t) != got.get(t))
            chk.violation("mapfb:stream", "inner feedback of a mapped child at cycle %d: every key must write value + its own previous "
                          "total %s, map_ produced %s" % (tdiff, want.get(tdiff), got.get(tdiff)), "# C08 feedback inside map_ children\n" + scn + "\n")
    chk.coverage["traces_validated_against_impl"] += len(scns)
    chk.notes["map_inner_feedback_scenarios"] = len(scns)


def check_c08(chk, rng):
    n = 300 if chk.tier == "quick" else 4000
    progs = [fb_program(rng, i + 1, rng.choice([5, 7, 9])) for i in range(n)]
    progs += [twin_loops_program(rng, n + 1 + i, rng.choice([5, 7])) for i in range(n // 10)]
    preds, res = dfcheck.predict(progs, tag="c08")
    chk.add_tlc(res, "feedback")
    cases = []
    for p in progs:
        cases.append(Case(p, preds[p["id"]], P.render(p), "flat"))
        gs = [g for g in P.candidate_groups(p)]
        rng.shuffle(gs)
        for g in gs[:1]:
            cases.append(Case(p, preds[p["id"]], P.render(p, group=g, mode="nested"), "nested"))
    execute(cases)
    verdicts = validate(cases, chk, "c08")
    judge("C08", cases, verdicts, chk, ("C08.",), stream_is_mine=True)
    check_dict_feedback(chk, rng)
    check_map_feedback(chk, rng)
    check_passive_loop_next_to_active_twin(chk, rng)
    check_structural_passive_reader(chk, rng)
    check_feedback_inside_try_except(chk, rng)
    quiet = 0
    for c in cases:
        if isinstance(c.events, dict):
            continue
        _, cyc, _, _ = P.observed(c.events)
        # quiescence: the real run must not cycle beyond what the specification says is requested
        if len(cyc) > len(c.pred["cycles"]) + 2:
            chk.violation("quiescence", "loop keeps re-ticking: cycles %s, specified %s" % (cyc, c.pred["cycles"]), replay_text(c, "quiescence"))
        if c.pred["cycles"] and c.pred["cycles"][-1] < c.prog["end"] - 1:
            quiet += 1
    chk.notes["runs_that_became_quiescent_before_end"] = quiet
    for c in cases[:2]:
        chk.sample({"scenario": c.scn.splitlines(), "predicted": c.pred["writes"]})
    chk.coverage["rule"] = ("loops closed through stdlib::feedback (active reader, passive reader, accumulator, pure delay, loop with an "
                            "extra scheduled delay), with/without initial value, flat and with the loop body nested; distinct = distinct scenario text")


# ------------------------------------------------------------------------------------------------ C15
def err_program(rng, pid, horizon):
    """src (with negative values) -> pre* -> throwneg -> post* -> rec, plus a branch that does not depend on the thrower"""
    vals = (1, 2, -1, 3, -2, 5)
    nodes = [P.node("src", script=P.gen_script(rng, horizon, maxlen=5, values=vals))]
    if rng.random() < 0.3:
        nodes[0]["mode"] = "all"
    prev = 1
    npre = rng.randint(0, 2)
    for _ in range(npre):
        # self-scheduling nodes upstream of the thrower (delay / echo): they hold a future wake-up when the thrower
        # throws, and the wrapped sub-graph's next activation is then driven by that timer alone
        kind = rng.choice(["pass", "add", "count", "acc", "delay", "echo"])
        if _ == npre - 1 and rng.random() < 0.4:
            kind = rng.choice(["delay", "echo"])
        nodes.append(P.node(kind, ins=[prev], k=rng.choice([1, 2]) if kind in ("delay", "echo") else rng.choice([0, 1, -3])))
        prev = len(nodes)
    first_in_chain = 2
    if rng.random() < 0.3:
        # a thrower that owns a scheduler: it throws from a timer-driven evaluation while its next wake-up may be pending
        nodes.append(P.node(rng.choice(["tdelay", "techo", "techo"]), ins=[prev], k=rng.randint(1, 2), cap=1))
    else:
        nodes.append(P.node("throwneg", ins=[prev], cap=1))
    thrower = len(nodes)
    prev = thrower
    for _ in range(rng.randint(0, 2)):
        nodes.append(P.node(rng.choice(["pass", "add", "acc", "delay"]), ins=[prev], k=1))
        prev = len(nodes)
    last = prev
    nodes.append(P.node("rec", ins=[last]))
    # independent branch
    nodes.append(P.node(rng.choice(["acc", "count", "add"]), ins=[1], k=2))
    nodes.append(P.node("rec", ins=[len(nodes)]))
    if rng.random() < 0.4:   # the thrower re-arms itself: a delay fed by the source schedules future wake-ups around the fault
        nodes.append(P.node("delay", ins=[1], k=rng.randint(1, 2)))
        nodes.append(P.node("rec", ins=[len(nodes)]))
    p = P.program(pid, nodes, start=1, end=horizon + 1)
    p["_chain"] = (first_in_chain, thrower, last)
    return p


def lifted_program(rng, pid, horizon):
    """two sources -> fdiv (the library's LIFTED integer floor division: a node with a specialised evaluator, not a static node)
    -> post* -> rec, plus a branch that does not depend on it; the divisor is 0 in some cycles"""
    nodes = [P.node("src", script=P.gen_script(rng, horizon, maxlen=5, values=(0, 4, 6, 7, 9))),
             P.node("src", script=P.gen_script(rng, horizon, maxlen=5, values=(0, 0, 1, 2, 3)))]
    nodes.append(P.node("fdiv", ins=[1, 2], cap=1))
    prev = 3
    for _ in range(rng.randint(0, 2)):
        nodes.append(P.node(rng.choice(["pass", "add", "acc"]), ins=[prev], k=1))
        prev = len(nodes)
    nodes.append(P.node("rec", ins=[prev]))
    nodes.append(P.node(rng.choice(["acc", "count", "add"]), ins=[rng.choice([1, 2])], k=2))
    nodes.append(P.node("rec", ins=[len(nodes)]))
    p = P.program(pid, nodes, start=1, end=horizon + 1)
    p["_chain"] = (3, 3, prev)
    return p


def check_lifted_capture(chk, rng):
    """error capture enabled on a lifted library operator (C15 'when error capture is enabled for a node')"""
    n = 60 if chk.tier == "quick" else 800
    progs = [lifted_program(rng, 40000 + i, rng.choice([5, 7])) for i in range(n)]
    preds, res = dfcheck.predict(progs, tag="c15lift")
    chk.add_tlc(res, "lifted-operator errors")
    cases = []
    for p in progs:
        q = dict(p, capt=[[1003, [3]]])
        cases.append(Case(q, preds[p["id"]], P.render(p, capture={3}), "lifted-node-capture"))
        a, th, last = p["_chain"]
        hi = rng.randint(th, last)
        cases.append(Case(q, preds[p["id"]], P.render(p, group=(list(range(th, hi + 1)), [1, 2], hi), mode="nested", capture={3}), "lifted-nested-node-capture"))
    execute(cases)
    verdicts = validate(cases, chk, "c15lift")
    judge("C15", cases, verdicts, chk, ("C15.",), stream_is_mine=True)
    chk.notes["lifted_operator_exceptions"] = sum(len(c.pred["errs"]) for c in cases)


def check_c15(chk, rng):
    n = 250 if chk.tier == "quick" else 3000
    progs = [err_program(rng, i + 1, rng.choice([5, 7])) for i in range(n)]
    preds, res = dfcheck.predict(progs, tag="c15")
    chk.add_tlc(res, "errors")
    cases = []
    for p in progs:
        a, th, last = p["_chain"]
        # (a) per-node capture
        q = dict(p, capt=[[1000 + th, [th]]])
        cases.append(Case(q, preds[p["id"]], P.render(p, capture={th}), "node-capture"))
        # (b) try_except around a chain segment that contains the thrower at index 0, 1 or 2
        lo = rng.randint(a, th) if a <= th else th
        # nodes after the thrower inside the wrapped sub-graph miss the aborted cycle; a self-scheduling node there
        # would lose a wake-up, which the property leaves open (it depends on the failing node) - keep those outside
        lim = th
        while lim < last and p["nodes"][lim]["kind"] != "delay":
            lim += 1
        hi = rng.randint(th, lim)
        members = list(range(lo, hi + 1))
        ext = [p["nodes"][lo - 1]["ins"][0]]
        gid = len(p["nodes"]) + 1
        q = dict(p, capt=[[gid, [th]]])
        cases.append(Case(q, preds[p["id"]], P.render(p, group=(members, ext, hi), mode="tryexc"), "try_except/idx%d" % (th - lo)))
        # (c) per-node capture inside a nested child graph
        q = dict(p, capt=[[1000 + th, [th]]])
        cases.append(Case(q, preds[p["id"]], P.render(p, group=(members, ext, hi), mode="nested", capture={th}), "nested-node-capture"))
    execute(cases)
    verdicts = validate(cases, chk, "c15")
    judge("C15", cases, verdicts, chk, ("C15.",), stream_is_mine=True)
    nthrow = sum(len(c.pred["errs"]) for c in cases)
    chk.notes["exceptions_injected"] = nthrow
    # "in a keyed map an error in one key's child is reported under that key only": mapped functions that throw on some of
    # their inputs, per-key capture; every key's stream = the function run alone on that key, errors under their key, the
    # error output never ticks with nothing to report
    import check_ops
    check_ops.check_c10(chk, rng, nscn=120 if chk.tier == "quick" else 1200, force_throw=True, with_models=False, tag="c15map")
    # level B of the scan that a captured exception cuts short (AbortScan.tla): model-checked with its named faults, its
    # behaviours replayed as scripted scheduler users inside a try_except sub-graph
    import abort_model
    abort_model.run(chk, rng)
    check_lifted_capture(chk, rng)
    for c in cases[:3]:
        chk.sample({"scenario": c.scn.splitlines(), "specified_errors": c.pred["errs"], "specified_writes": c.pred["writes"][:12]})
    chk.coverage["rule"] = ("chains src -> pre* -> thrower -> post* with an independent branch; thrower captured per node, wrapped in try_except "
                            "with the thrower at child index 0/1/2, or captured inside a nested child; throw cycles = wherever the scripted "
                            "input goes negative (incl. consecutive cycles); compared with Dataflow.tla (all non-dependent streams identical, "
                            "thrower evaluated normally afterwards) and validated by EngineTrace C15 clauses; distinct = distinct scenario text")


# ------------------------------------------------------------------------------------------------ C13
def ref_program(rng, pid, horizon):
    """targets (sources or computed streams) selected by one or two chained if_then_else; consumers below the
    reference expose every tick (count), the value (rec / pass) and combine it with other streams"""
    nodes = []
    ntg = rng.randint(2, 3)
    for _ in range(ntg):
        nodes.append(P.node("src", script=P.gen_script(rng, horizon, maxlen=4, values=(1, 2, 3, 5, 7, 11))))
        if rng.random() < 0.3:
            nodes[-1]["mode"] = "all"
    targets = list(range(1, ntg + 1))
    if rng.random() < 0.4:   # two targets that are positions of ONE node's list output
        nodes.append(P.node("elem0", ins=[1, 2]))
        nodes[-1]["pack"] = 1
        nodes.append(P.node("elem1", ins=[1, 2]))
        nodes[-1]["pack"] = 1
        targets = [len(nodes) - 1, len(nodes)] + targets[2:]
    if rng.random() < 0.4:   # a computed target
        nodes.append(P.node(rng.choice(["acc", "add", "delay"]), ins=[rng.choice(targets)], k=rng.randint(1, 2)))
        targets.append(len(nodes))
    # selector with repeated values (republishing the same reference), flips, late first tick
    times = sorted(rng.sample(range(1, horizon + 1), rng.randint(1, min(5, horizon))))
    sel = []
    for t in times:
        sel.append([t, rng.choice([0, 1]) if not sel or rng.random() < 0.7 else sel[-1][1]])
    nodes.append(P.node("src", script=sel))
    c1 = len(nodes)
    a, b = rng.sample(targets, 2)
    nodes.append(P.node("ite", ins=[c1, a, b]))
    ref = len(nodes)
    if len(targets) > 2 and rng.random() < 0.5:   # a reference to a reference
        times2 = sorted(rng.sample(range(1, horizon + 1), rng.randint(1, 3)))
        nodes.append(P.node("src", script=[[t, rng.choice([0, 1])] for t in times2]))
        c2 = len(nodes)
        other = [x for x in targets if x not in (a, b)][0]
        nodes.append(P.node("ite", ins=[c2, ref, other] if rng.random() < 0.5 else [c2, other, ref]))
        ref = len(nodes)
    nodes.append(P.node("count", ins=[ref]))
    nodes.append(P.node("rec", ins=[len(nodes)]))
    nodes.append(P.node("rec", ins=[ref]))
    k = rng.choice(["pass", "acc", "sumu", "sample", "delay"])
    if k == "sumu":
        # the reference is the validity-checked input: a forwarding output re-pointed to a target WITHOUT a value reports
        # modified && !valid (nested presentations), which only an unchecked consumer can see; C13 speaks of valid targets
        nodes.append(P.node(k, ins=[ref, rng.choice(targets)]))
    elif k == "sample":
        nodes.append(P.node(k, ins=[ref, rng.choice(targets)] if rng.random() < 0.5 else [rng.choice(targets), ref]))
    else:
        nodes.append(P.node(k, ins=[ref], k=1))
    nodes.append(P.node("rec", ins=[len(nodes)]))
    return P.program(pid, nodes, start=rng.choice([1, 1, 2]), end=horizon + 1)


def check_keyed_references(chk, rng):
    """references to dictionaries: retarget deltas are the difference between what the consumer had seen and the new
    contents - validated by spec/RefDictTrace.tla"""
    import check_ops
    scns = []
    for k in range(240 if chk.tier == "quick" else 2000):
        horizon = rng.choice([6, 8])
        h1 = check_ops.dict_history(rng, [1, 2, 3, 4], horizon, maxops=3)
        h2 = check_ops.dict_history(rng, [2, 3, 4, 5], horizon, maxops=3)
        if not h1 or not h2:
            continue
        # both dictionaries hold a value from the first cycle on: the property speaks of retargeting to a VALID target
        # (a selection of a dictionary that has never ticked, followed by a selection back, re-adds keys the consumer
        # had never been told were removed - observation recorded in DESIGN.md, not asserted)
        for h, k0 in ((h1, 1), (h2, 5)):
            if 1 not in h or not any(op == "set" for op, _, _ in h[1]):
                h[1] = [("set", k0, 9)] + [o for o in h.get(1, []) if o[1] != k0]
        times = sorted(rng.sample(range(1, horizon + 1), rng.randint(2, 5)))
        sel = []
        for t in times:
            sel.append((t, rng.choice([0, 1]) if not sel or rng.random() < 0.75 else sel[-1][1]))
        lines = ["scn dref%d" % k, "opt start=1 end=%d" % (horizon + 1), "graph root",
                 "n 1 src script=" + ";".join("%d:%d" % x for x in sel),
                 "n 2 dsrc script=" + check_ops.dscript(h1), "n 3 dsrc script=" + check_ops.dscript(h2),
                 "n 6 drec in=2", "n 7 drec in=3", "n 4 %s in=1,2,3" % ("dite" if k % 3 else "duref"), "n 5 drec in=4", "endgraph", "run"]
        scns.append("\n".join(lines))
    traces = hg.run_driver("engine", scns)
    items = []
    for k, (scn, tr) in enumerate(zip(scns, traces)):
        chk.count({"scn": scn})
        if isinstance(tr, dict) or any(e["e"] in ("wirefail", "harnessfail") for e in tr):
            chk.violation("dref:run", "keyed reference scenario crashed or could not be wired", scn)
            continue
        # within one engine cycle the recorders are independent observers: present the producers (selector, targets)
        # before the consumer so the specification knows the targets' contents when the consumer's record arrives
        ev = [e for e in tr if (e["e"] == "fn" and e["id"] == 1) or e["e"] in ("drec", "ret")]
        ev.sort(key=lambda e: (e.get("t", 10 ** 6), 1 if (e["e"] == "drec" and e["id"] == 5) else 0))
        items.append({"id": k, "prog": {"sel": 1, "tgt1": 6, "tgt2": 7, "cons": 5}, "ev": ev})
    verdicts, st, trn = tracecheck.validate("RefDictTrace", "RefDictTrace.cfg", items, "c13dict", keep={"fn", "drec", "ret"})
    chk.coverage["states"] += st
    chk.coverage["transitions"] += trn
    chk.coverage["traces_validated_against_impl"] += len(items)
    for it in items:
        acc, why = verdicts[it["id"]]
        if why:
            chk.violation("dref:%s" % why, "RefDictTrace.tla rejects the trace at event %d: %s" % (acc + 1, why), "# %s\n%s\n" % (why, scns[it["id"]]))
    chk.notes["keyed_reference_scenarios"] = len(scns)


def check_c13(chk, rng):
    n = 500 if chk.tier == "quick" else 4000
    progs = [ref_program(rng, i + 1, rng.choice([6, 7, 9])) for i in range(n)]
    preds, res = dfcheck.predict(progs, tag="c13")
    chk.add_tlc(res, "references")
    cases = []
    for p in progs:
        cases.append(Case(p, preds[p["id"]], P.render(p), "flat"))
        gs = P.candidate_groups(p)
        # sub-graphs that make the reference cross a nested-graph boundary (as an output, or as an input of consumers)
        refs = {i for i, nd in enumerate(p["nodes"], 1) if nd["kind"] == "ite"}
        gs = [g for g in gs if (set(g[0]) & refs) or (set(g[1]) & refs)]
        # a reference handed out of a sub-graph declared to return a plain time-series is dereferenced at the boundary;
        # chaining it into another selector outside would compare "unpublished reference" (inlined) with "invalid
        # time-series" (nested), a typing difference rather than a behaviour of references - not presented
        gs = [g for g in gs if not (g[2] in refs and any(g[2] in p["nodes"][r - 1]["ins"] for r in refs if r not in g[0]))]
        # ... and the same in the other direction: a selector inside the sub-graph reading a reference made outside
        gs = [g for g in gs if not any(j in refs and j not in g[0] for r in refs if r in g[0] for j in p["nodes"][r - 1]["ins"])]
        rng.shuffle(gs)
        for g in gs[:2]:
            cases.append(Case(p, preds[p["id"]], P.render(p, group=g, mode="nested", depth=rng.choice([1, 1, 2])), "nested"))
    execute(cases)
    for c in cases:
        chk.count({"scn": c.scn})
        if isinstance(c.events, dict):
            chk.violation("crash:" + c.what, "driver crashed or hung: %s" % json.dumps(c.events)[:300], replay_text(c, "crash"))
            continue
        diff = dfcheck.compare(c.prog, c.pred, c.events)
        if diff:
            chk.violation("ref-stream:" + c.what, "reading through the reference differs from reading its current target (Dataflow.tla): " + diff,
                          replay_text(c, diff))
    chk.coverage["traces_validated_against_impl"] += len(cases)
    check_keyed_references(chk, rng)
    for c in cases[:2]:
        chk.sample({"scenario": c.scn.splitlines(), "specified": c.pred["writes"][:16]})
    chk.coverage["rule"] = ("2-4 targets (scripted or computed, incl. self-scheduling), one or two chained if_then_else selectors whose condition "
                            "repeats values (republished reference), flips, first ticks late; consumers below the reference count every tick, record the "
                            "value and combine it with other streams; the reference is also routed across nested-graph boundaries (depth 1-2); "
                            "expectation = Dataflow.tla (readers observe the selected target; retarget = tick with the target's current value); "
                            "distinct = distinct scenario text")


# ------------------------------------------------------------------------------------------------ C09
def check_c09(chk, rng):
    import slotcheck
    model = slotcheck.model_start(chk.tier == "quick")
    n = 200 if chk.tier == "quick" else 3000
    fam = rand_family(rng, n, 1, chk, "rand", max_nodes=7, horizon=7,
                      kinds=("pass", "add", "acc", "count", "delay", "echo", "echo", "sum2", "sumu", "sample", "sample2", "sampleu", "lsum", "lsumv"))
    cases, groups = [], []
    for p, pred in fam:
        gs = P.candidate_groups(p, max_ext=3)
        rng.shuffle(gs)
        # prefer groups containing self-scheduling nodes (timers, delays, sources)
        gs.sort(key=lambda g: -sum(1 for i in g[0] if p["nodes"][i - 1]["kind"] in ("timer", "delay", "src")))
        for g in gs[:3]:
            idx = []
            ext = g[1]
            # captured outer ports: the body references some of its outside producers directly instead of declaring
            # them as boundary inputs (every split of the outside producers with <= 2 declared ones is a presentation)
            splits = [()] if len(ext) <= 2 else []
            if ext:
                k = rng.randint(1, len(ext))
                sub = tuple(sorted(rng.sample(ext, k)))
                if len(ext) - len(sub) > 2:
                    sub = tuple(sorted(ext[:len(ext) - 2]))
                splits.append(sub)
                if len(ext) == 2 and len(sub) == 2:
                    splits.append((ext[rng.randint(0, 1)],))      # one declared + one captured
            for outer in splits:
                for mode, depth in (("inline", 1), ("nested", 1), ("nested", 2)):
                    if outer and mode == "inline" and idx:
                        continue
                    idx.append(len(cases))
                    cases.append(Case(p, pred, P.render(p, group=g, mode=mode, depth=depth, outer=outer),
                                      "%s/%d%s" % (mode, depth, ("+captured" + "".join(str(j) for j in outer)) if outer else "")))
            groups.append(idx)
    # sub-graphs whose RESULT is a reference (a selection made inside, dereferenced at the boundary): re-pointing it in a
    # later cycle must reach the outside in that cycle, at any depth
    rprogs = [ref_program(rng, 70000 + i, rng.choice([6, 7, 9])) for i in range(60 if chk.tier == "quick" else 900)]
    rpreds, rres = dfcheck.predict(rprogs, tag="c09ref")
    chk.add_tlc(rres, "reference-results")
    for p in rprogs:
        refs = {i for i, nd in enumerate(p["nodes"], 1) if nd["kind"] == "ite"}
        gs = [g for g in P.candidate_groups(p) if g[2] in refs]
        gs = [g for g in gs if not any(g[2] in p["nodes"][r - 1]["ins"] for r in refs if r not in g[0])]
        gs = [g for g in gs if not any(j in refs and j not in g[0] for r in refs if r in g[0] for j in p["nodes"][r - 1]["ins"])]
        rng.shuffle(gs)
        for g in gs[:1]:
            idx = []
            for mode, depth in (("inline", 1), ("nested", 1), ("nested", 2)):
                idx.append(len(cases))
                cases.append(Case(p, rpreds[p["id"]], P.render(p, group=g, mode=mode, depth=depth), "ref-result-%s/%d" % (mode, depth)))
            groups.append(idx)
    # nodes with an explicit EMPTY validity gate (tog: unchecked inputs) inside the sub-graph - see the known finding below
    eg_first = len(cases)
    egprogs = []
    for i in range(40 if chk.tier == "quick" else 400):
        p = P.random_program(rng, 75000 + i, max_nodes=6, horizon=6, kinds=("tog", "tog", "pass", "add", "count", "sum2"), allow_fb=False)
        if any(nd["kind"] == "tog" for nd in p["nodes"]):
            egprogs.append(p)
    egpreds, egres = dfcheck.predict(egprogs, tag="c09gate")
    chk.add_tlc(egres, "empty-gate")
    eg_groups = []
    for p in egprogs:
        gs = [g for g in P.candidate_groups(p) if any(p["nodes"][j - 1]["kind"] == "tog" for j in g[0])]
        rng.shuffle(gs)
        for g in gs[:1]:
            idx = []
            for mode, depth in (("inline", 1), ("nested", 1), ("nested", 2)):
                idx.append(len(cases))
                cases.append(Case(p, egpreds[p["id"]], P.render(p, group=g, mode=mode, depth=depth), "empty-gate-%s/%d" % (mode, depth)))
            eg_groups.append((idx, g))
    execute(cases)
    # known finding (not repaired: documented design, nested_bindings.h schedule_sampled_input_consumers): a node with an empty
    # validity gate is evaluated once more, in the cycle in which its nested graph starts, so the sub-graph's streams differ
    # from the inlined ones from that cycle on.  Reported under its own case key only when the FIRST difference is exactly
    # that extra evaluation; any other difference in these scenarios is an ordinary violation.
    for idx, g in eg_groups:
        base = cases[idx[0]]
        if isinstance(base.events, dict):
            continue
        w0 = P.observed(base.events)[0]
        for k in idx[1:]:
            c = cases[k]
            if isinstance(c.events, dict):
                chk.violation("crash:" + c.what, "driver crashed", replay_text(c, "crash"))
                continue
            wk = P.observed(c.events)[0]
            if wk == w0:
                continue
            diffs = sorted((t, i) for i in set(w0) | set(wk) for t in {x[0] for x in set(wk.get(i, [])) ^ set(w0.get(i, []))})
            t0, i0 = diffs[0]
            extra_at_start = (t0 == c.prog["start"] and i0 in g[0] and c.prog["nodes"][i0 - 1]["kind"] == "tog"
                              and len(wk.get(i0, [])) == len(w0.get(i0, [])) + 1)
            if extra_at_start:
                chk.violation("F-empty-gate-node-sampled-at-child-start", "known", "")
            else:
                chk.violation("inline-vs-%s" % c.what, "the same sub-graph gives different streams inlined and nested (first difference: node %d at %d)"
                              % (i0, t0), replay_text(c, "differs from inlined"))
    cases_eg = cases[eg_first:]
    for c in cases_eg:
        chk.count({"scn": c.scn})
    cases = cases[:eg_first]
    verdicts = validate(cases, chk, "c09")
    judge("C09", cases, verdicts, chk, ("C09.",), stream_is_mine=False)
    for idx in groups:
        obs = []
        for k in idx:
            c = cases[k]
            if isinstance(c.events, dict):
                obs.append(None)
                continue
            w, cyc, errs, ret = P.observed(c.events)
            obs.append((sorted(w.items()), ret.get("ok") if ret else None))
        # differential at trace level: a rule of the engine that the inlined presentation satisfies and the
        # nested one breaks (e.g. a consumer of the sub-graph's output sees it modified when nothing inside
        # wrote it) means the sub-graph does not behave the same nested as inlined
        if cases[idx[0]].what.startswith("ref-result"):
            v0 = "skip"     # no trace-level differential for these (streams are compared below)
        else:
            v0 = verdicts.get(idx[0], (0, "trace.missing"))[1]
        for k in idx[1:]:
            vk = verdicts.get(k, (0, "trace.missing"))
            if vk[1] and not vk[1].startswith("C09.") and not v0:
                c = cases[k]
                chk.violation("nested-only:%s:%s" % (vk[1], c.what),
                              "inlined the sub-graph satisfies the engine rules, %s it breaks %s (event %d of the trace)"
                              % (c.what, vk[1], vk[0] + 1), replay_text(c, vk[1]))
        if obs[0] is None:
            continue
        for k, o in zip(idx[1:], obs[1:]):
            if o is not None and o != obs[0]:
                c = cases[k]
                diff = dfcheck.compare(c.prog, c.pred, c.events) or "streams differ from the inlined run"
                chk.violation("inline-vs-%s" % c.what, "the same sub-graph gives different streams inlined and %s: %s" % (c.what, diff),
                              replay_text(c, "differs from inlined"))
        # both equal but different from the spec: not C09's business (C03 decides) - noted only
    # the mechanism below the streams: NestedSched.tla (delegation protocol, exhaustive + named faults) bound to the real
    # schedule tables by SlotTrace.tla
    slotcheck.run(chk, "C09", rng, 150 if chk.tier == "quick" else 2500, ("C09.",))
    slotcheck.model_finish(chk, model)
    for c in cases[:3]:
        chk.sample({"scenario": c.scn.splitlines()})
    chk.coverage["rule"] = ("random programs; for up to 3 sub-ranges each (preferring ones with timers / delays / sources inside) the "
                            "sub-graph is run inlined, nested and doubly nested; streams compared pairwise and child-clock rules "
                            "validated by EngineTrace (C09.*); distinct = distinct scenario text")


CHECKS = {"C13": check_c13, "C15": check_c15, "C01": check_c01, "C02": check_c02, "C03": check_c03, "C06": check_c06, "C08": check_c08, "C09": check_c09}


def replay(pid, path):
    scn = "\n".join(l for l in open(path).read().splitlines() if not l.startswith("#"))
    tr = hg.run_driver("engine", [scn])[0]
    print(json.dumps(tr)[:3000] if isinstance(tr, dict) else "\n".join(json.dumps(e) for e in tr))
    return 0


def main():
    ap = argparse.ArgumentParser()
    ap.add_argument("pid")
    ap.add_argument("--tier", default=None)
    ap.add_argument("--replay", default=None)
    a = ap.parse_args()
    if a.tier:
        os.environ["VERIF_TIER"] = a.tier
    hg.build()
    if a.replay:
        return replay(a.pid, a.replay)
    chk = hg.Check(a.pid)
    rng = random.Random(hg.seed() * 7919 + int(a.pid[1:]))
    CHECKS[a.pid](chk, rng)
    return chk.finish()


if __name__ == "__main__":
    hg.main_wrapper(main)
