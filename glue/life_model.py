"""C14, spec -> code: the level-B model spec/Lifecycle.tla (start loop with rollback guard, reverse stop loop with the
first-exception recorder, the run loop's unwind guard / cleanup_on_error, the executor's release stop, nested children)
bound to the real engine.

TLC (MCLifecycle.tla) enumerates, for the shapes flat3 / nested / nested2 of check_life.SHAPES, EVERY fault set of at most two
faults (leaf node x phase in start / eval / stop x occurrence) x clean-up flag, checks the sentences of C14 (level A) on every
behaviour and prints each finished behaviour with the observer events it predicts.  Here every predicted behaviour (quick: a
seeded sample) is rendered as a check_life scenario, run through the engine driver, and the same observable sequence is read
off the real trace:

  - the real trace is judged by spec/LifeTrace.tla (level A): only that produces a VIOLATION;
  - a difference between the predicted and the observed sequence that level A accepts is printed as `DRIFT C14 ...`
    (exit status unaffected): the code changed in a way the property permits, Lifecycle.tla needs an update.

Seven named slips of the model (Fault constant) must each be rejected by TLC with the clause they break.

Hook: check_life.main() calls `life_model.run(chk, chk.tier == "quick")` before `chk.finish()`."""
import json
import random
from concurrent.futures import ThreadPoolExecutor

import hg
import tracecheck

# named slip of Lifecycle.tla -> the level-A sentence TLC must report
FAULTS = [("fwdrollback", "ReverseStopOrder"), ("stopabort", "FailingStopDoesNotPreventOthers"),
          ("rollbackabort", "FailedStartStopsExactlyStarted"), ("noreturnstop", "StoppedExactlyOnce"),
          ("lasterror", "OriginalErrorReachesCaller"), ("rollbackincl", "FailedStartStopsExactlyStarted"),
          ("nochildstart", "NoEvalOutsideStartStop")]
NODE_EVENTS = ("nstart", "nstarted", "nstartfail", "eval", "nstop", "nstopfail", "nstopped")
QUICK_SAMPLE = 300


def predicted(b):
    """the model's observable sequence as comparable tuples"""
    out = []
    for e in b["obs"]:
        if e["e"] == "ret":
            out.append(("ret", e["ok"], e["node"], e["id"], e["phase"], e["word"]))
        elif e["e"] == "released":
            out.append(("released",))
        else:
            out.append((e["e"], e["g"], e["n"]))
    return out


def observed(trace, tree):
    """the same sequence read off a driver trace; graph instances are named as the model names them (position in the shape:
    root = 0, the child of node pn of graph pg = tree[(pg, pn)])"""
    child = {(pg, pn): g for pg, pn, g in tree}
    inst = {}
    out = []
    for e in trace:
        k = e["e"]
        if k == "gstart":
            inst[e["g"]] = 0 if e.get("pg", -1) < 0 else child.get((inst.get(e["pg"], "?"), e["pn"]), "?%d" % e["g"])
        elif k in NODE_EVENTS:
            out.append((k, inst.get(e["g"], "?%d" % e["g"]), e["n"]))
        elif k == "ret":
            if e.get("ok") == 1:
                out.append(("ret", 1, -1, 0, "", ""))
            else:
                tags = e.get("tags", [])
                fid, fph = (tags[0][0], tags[0][1]) if len(tags) == 1 else (0, "?%d tags" % len(tags))
                out.append(("ret", 0, e.get("node", -1), fid, fph, e.get("phase", "")))
        elif k == "released":
            out.append(("released",))
    return out


def first_difference(p, o):
    for i in range(max(len(p), len(o))):
        a = p[i] if i < len(p) else None
        b = o[i] if i < len(o) else None
        if a != b:
            return i, a, b
    return None


def behaviour_name(b):
    fs = sorted((f[0], f[1], f[2]) for f in b["faults"])
    return "model-%s-%s-c%d" % (b["shape"], "+".join("%d%s%d" % f for f in fs) or "nofault", b["cleanup"]), fs


def run(chk, quick):
    import check_life
    # (1) the named slips in the background (two single-worker JVMs at a time); the exhaustive family, which is also the
    # behaviour generator, right away
    pool = ThreadPoolExecutor(max_workers=2)
    futs = [("Lifecycle fault " + f, inv, pool.submit(hg.expect_violation, "MCLifecycle", "Lifecycle.%s.cfg" % f, inv, timeout=1800, workers=1))
            for f, inv in FAULTS]
    if not quick:
        futs.append(("Lifecycle generic shapes (root 1..3 nodes, child 1..2)", None,
                     pool.submit(hg.tlc, "MCLifecycle", "Lifecycle.gen.cfg", timeout=3000, workers=2)))
    res = hg.tlc("MCLifecycle", "Lifecycle.quick.cfg" if quick else "Lifecycle.thorough.cfg", workers=4, timeout=1800)
    if res.violation:
        raise hg.MachineryError("Lifecycle.tla violates its own level-A invariants:\n" + res.violation)
    chk.add_tlc(res, "Lifecycle exhaustive (flat3, nested, nested2; fault sets <= 2; occurrences <= %d)" % (2 if quick else 3))
    behaviours = hg.printed_json(res, "LIFE")
    if not behaviours:
        raise hg.MachineryError("Lifecycle.tla printed no behaviour")
    # (2) spec -> code
    todo = list(behaviours)
    if quick:
        random.Random(hg.seed() * 31 + 1414).shuffle(todo)
        todo = todo[:QUICK_SAMPLE]
    cases = []
    for b in todo:
        name, fs = behaviour_name(b)
        cases.append((name, check_life.scenario(name, b["shape"], fs, b["cleanup"]), b))
    traces = hg.run_driver("engine", [c[1] for c in cases])
    items, drift, compared, fired = [], [], 0, 0
    for k, ((name, scn, b), tr) in enumerate(zip(cases, traces)):
        chk.count({"scn": scn})
        if isinstance(tr, dict):
            chk.violation("crash:" + name, "driver crashed/hung: %s" % json.dumps(tr)[:300], "# %s\n%s\n" % (name, scn))
            continue
        items.append({"id": k, "prog": {"cleanup": b["cleanup"]}, "ev": tr})
        compared += 1
        fired += any(e["e"] == "uthrow" for e in tr)
        d = first_difference(predicted(b), observed(tr, b["tree"]))
        if d:
            drift.append((name, d))
    # level A decides
    verdicts, st, trn = tracecheck.validate("LifeTrace", "LifeTrace.cfg", items, "c14m", shards=4, keep=check_life.KEEP)
    chk.coverage["states"] += st
    chk.coverage["transitions"] += trn
    chk.coverage["traces_validated_against_impl"] += len(items)
    rejected = set()
    for it in items:
        name, scn, b = cases[it["id"]]
        acc, why = verdicts[it["id"]]
        if why:
            rejected.add(name)
            chk.violation("life:%s:%s" % (why, b["shape"]), "LifeTrace.tla rejects the trace at event %d: %s" % (acc + 1, why),
                          "# %s\n# %s\n%s\n" % (name, why, scn))
    for name, (i, a, o) in drift[:40]:
        print("DRIFT C14 lifecycle_model %s: observable event #%d: Lifecycle.tla predicts %s, the engine shows %s%s"
              % (name, i + 1, json.dumps(a), json.dumps(o), " (level A rejects this trace, see VIOLATION)" if name in rejected else ""))
    if len(drift) > 40:
        print("DRIFT C14 lifecycle_model ... %d more behaviours differ" % (len(drift) - 40))
    chk.notes["lifecycle_model"] = {"behaviours_predicted_by_TLC": len(behaviours), "behaviours_compared_with_the_engine": compared,
                                    "in_which_a_fault_fired": fired, "drift": len(drift),
                                    "drift_samples": [{"name": n, "event": i + 1, "predicted": a, "observed": o} for n, (i, a, o) in drift[:10]],
                                    "named_slips_rejected_by_TLC": [f for f, _ in FAULTS]}
    for label, inv, fut in futs:
        r = fut.result()
        if inv is None and r.violation:
            raise hg.MachineryError("Lifecycle.tla violates its own level-A invariants (%s):\n%s" % (label, r.violation))
        chk.add_tlc(r, label)
    pool.shutdown()
    return len(drift)
