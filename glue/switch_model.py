"""C12, level B and the instance discipline of switch_.

* spec/SwitchNode.tla (instances in MCSwitchNode.tla): the sequential code of switch_node.cpp as one action per root
  cycle (decide -> destruct retired -> construct + bind sampled -> stop old -> start new -> evaluate active -> pull),
  model-checked exhaustively against the level A invariants of C12; every named fault configuration must be rejected
  by TLC with the invariant it was written for (hg.expect_violation).  Runs in the background while the driver works.
* spec/SwitchTrace.tla: code -> spec.  Generated switch scenarios (repeated keys, re-selected earlier keys, several
  unmatched keys under a default, self-scheduling branches) run on the compiled tree; the real observer trace, projected
  to the switch node and its branch graph instances, is judged by TLC clause by clause.  Hand-made corruptions of an
  accepted trace ride along in every run and must be rejected with the right clause.

Integration: `switch_model.run(chk, rng)` from check_ops.check_c12.  Standalone: `python3 glue/switch_model.py [--tier thorough]`.
"""
import copy
import json
import os
import random
import sys
from concurrent.futures import ThreadPoolExecutor

sys.path.insert(0, os.path.dirname(os.path.abspath(__file__)))
import hg
import tracecheck

MODULE = "MCSwitchNode"
# (cfg, invariant TLC must report | None, label)
FAULTS = [("byidentity", "ReselectCreatesNewInstance"), ("samedef", "OutputFollowsSelectedBranchAlone"),
          ("nosample", "SamplesHeldInputsAtSelection"), ("nodefaultslot", "NewBranchStartsFresh"),
          ("earlyreturn", "NoLostBranchWakeup"), ("retirefirst", "ExactlyOneLiveBranch"),
          ("startfirst", "RetiredBranchStoppedBeforeNewStarts"), ("resume", "ReselectCreatesNewInstance"),
          ("evalslots", "RetiredBranchNeverEvaluated"), ("ignoreunmatched", "UnmatchedWithoutDefaultIsError")]
EVENTS = {"cycle", "key", "held", "req", "sw", "swd", "gstart", "gstarted", "gstop", "gstopped", "geval", "neval", "ret"}
KEY_ID, HELD_ID, HELD2_ID, SWITCH_ID, REC_ID = 1, 2, 5, 3, 4


# ------------------------------------------------------------------------------------------------ models
def models_start(quick):
    """Exhaustive run(s) + named faults, at most 4 TLC workers in total: one lane for the exhaustive model (2 workers),
    two lanes for the fault configurations one after the other (1 worker each; TLC stops at the first violation)."""
    ex = ThreadPoolExecutor(max_workers=3)
    full = [("SwitchNode.none.cfg", "SwitchNode-exhaustive")] if quick else \
           [("SwitchNode.thorough.cfg", "SwitchNode-exhaustive"), ("SwitchNode.shared.cfg", "SwitchNode-exhaustive:shared-default")]

    def lane_full():
        return [(label, None, hg.tlc(MODULE, cfg, workers=2, timeout=3000, metatag="switchB")) for cfg, label in full]

    def lane_faults(part):
        return [("SwitchNode-fault:" + f, inv, hg.expect_violation(MODULE, "SwitchNode.%s.cfg" % f, inv, workers=1, timeout=1800,
                                                                   metatag="switchB-" + f)) for f, inv in part]

    return ex, [ex.submit(lane_full), ex.submit(lane_faults, FAULTS[0::2]), ex.submit(lane_faults, FAULTS[1::2])]


def models_finish(chk, handle):
    ex, futs = handle
    out = []
    for fut in futs:
        for label, inv, res in fut.result():
            if inv is None and res.violation:
                raise hg.MachineryError("SwitchNode.tla violates its own invariants:\n" + res.violation)
            chk.add_tlc(res, label)
            out.append({"label": label, "rejected_by": inv, "states": res.states, "wall_s": round(res.wall, 1)})
    ex.shutdown()
    return out


# ------------------------------------------------------------------------------------------------ scenarios
def _branch(rng, base, two, selfsched):
    """1-3 nodes in a chain over a0 (and a1 when `two`); returns statement lines, output id, first node id"""
    lines, prev, nid = [], "a0", base
    n = rng.randint(1, 3)
    for j in range(n):
        kinds = ["pass", "add", "acc", "count", "delay", "echo"] + (["delay", "echo", "echo"] if selfsched else [])
        if two and j == 0:
            kinds += ["sumu", "sum2", "sum2"]
        k = rng.choice(kinds)
        if k in ("sumu", "sum2"):
            lines.append("n %d %s in=%s,a1" % (nid, k, prev))
        elif k == "add":
            lines.append("n %d add k=%d in=%s" % (nid, rng.randint(1, 3), prev))
        elif k in ("delay", "echo"):
            lines.append("n %d %s d=%d in=%s" % (nid, k, rng.randint(1, 3), prev))
        else:
            lines.append("n %d %s in=%s" % (nid, k, prev))
        prev = nid
        nid += 1
    return lines, prev, base


def _script(rng, horizon, maxlen, values):
    times = sorted(rng.sample(range(1, horizon + 1), rng.randint(1, min(maxlen, horizon))))
    return [[t, rng.choice(values)] for t in times]


def gen_scenario(rng, s):
    horizon = rng.choice([6, 7, 9])
    two = rng.random() < 0.3
    three = rng.random() < 0.2
    nb = rng.randint(2, 3)
    selfsched = rng.random() < 0.6
    branches = [_branch(rng, 10 * (b + 1), two, selfsched) for b in range(nb)]
    has_default = rng.random() < 0.45
    own_default = has_default and rng.random() < 0.5
    if own_default:      # a default definition of its own, larger than every keyed one
        for b in range(nb):
            while len(branches[b][0]) > 2:
                branches[b] = _branch(rng, 10 * (b + 1), two, selfsched)
        d = _branch(rng, 10 * (nb + 1), two, selfsched)
        while len(d[0]) < 3:
            d = _branch(rng, 10 * (nb + 1), two, selfsched)
        branches.append(d)
    dflt = nb if own_default else nb - 1
    reload = rng.random() < 0.3
    unmatched = (not has_default) and rng.random() < 0.15
    matched = list(range(1, nb + 1))
    pool = matched + ([7, 8, 9, 8] if has_default else [])
    kticks, used = [], []
    nk = rng.randint(2, min(6, horizon))
    for t in sorted(rng.sample(range(1, horizon + 1), nk)):
        prev = kticks[-1][1] if kticks else None
        r = rng.random()
        if prev is not None and r < 0.25:
            k = prev                                            # re-tick of the same key value
        elif len(used) >= 2 and r < 0.5:
            k = rng.choice([x for x in used if x != prev] or used)   # back to an earlier key
        elif unmatched and t > horizon // 2 and r > 0.7:
            k = 7                                               # no branch, no default: the run must fail here
        else:
            k = rng.choice(pool)
        kticks.append([t, k])
        if k not in used:
            used.append(k)
    ts1 = _script(rng, horizon, 5, (1, 2, 3, 5, 7))
    if rng.random() < 0.5:
        ts1[0][0] = 1 if all(t != 1 for t, _ in ts1[1:]) else ts1[0][0]      # often valid before the first selection
        ts1.sort()
    ts2 = _script(rng, horizon, 3, (10, 20)) if two else []
    lines = ["scn swm%d" % s, "opt start=1 end=%d" % (horizon + 1)]
    for b, (stmts, fout, first) in enumerate(branches):
        lines += ["graph g%d nin=%d" % (b, 2 if two else 1)] + stmts + \
                 ["out %s" % ("%d,%d,a0" % (fout, first) if three else fout), "endgraph"]
    lines += ["graph root", "n %d src script=%s" % (KEY_ID, ";".join("%d:%d" % (t, v) for t, v in kticks)),
              "n %d src script=%s" % (HELD_ID, ";".join("%d:%d" % (t, v) for t, v in ts1))]
    if two:
        lines.append("n %d src script=%s" % (HELD2_ID, ";".join("%d:%d" % (t, v) for t, v in ts2)))
    cases = ",".join("%d:%d" % (b + 1, b) for b in range(nb))
    lines.append("n %d switch%s in=%d,%d%s cases=%s%s%s" % (SWITCH_ID, "3" if three else "", KEY_ID, HELD_ID, ",%d" % HELD2_ID if two else "",
                                                          cases, " dflt=%d" % dflt if has_default else "", " reload=1" if reload else ""))
    if three:
        lines += ["n 141 elem3 in=%d i=0" % SWITCH_ID, "n %d rec in=141" % REC_ID]
    else:
        lines.append("n %d rec in=%d" % (REC_ID, SWITCH_ID))
    lines += ["endgraph", "run"]
    meta = {"reload": 1 if reload else 0, "dflt": 1 if has_default else 0, "keys": matched, "kticks": kticks,
            "fails": any(k not in matched for _, k in kticks) and not has_default}
    return "\n".join(lines), meta


# ------------------------------------------------------------------------------------------------ projection
def project(tr):
    """the real trace -> the events of spec/SwitchTrace.tla (uniform fields e, g, t, v); None if there is no switch node"""
    swn = [e["n"] for e in tr if e["e"] == "gnode" and e.get("name") == "switch_"]
    if len(swn) != 1:
        return None
    swn = swn[0]
    root = next((e["g"] for e in tr if e["e"] == "gstart" and e.get("pg") == -1), 0)
    kids, out = set(), []

    def ev(e, g=0, t=0, v=0):
        out.append({"e": e, "g": g, "t": t, "v": v})

    for e in tr:
        k = e["e"]
        g = e.get("g")
        if k == "cycle":
            if g == root:
                ev("cycle", t=e["t"])
            elif g in kids:
                ev("geval", g=g, t=e["t"])
        elif k == "fn" and g == root and e.get("w") == 1 and e.get("id") == KEY_ID:
            ev("key", t=e["t"], v=e["out"])
        elif k == "fn" and g == root and e.get("w") == 1 and e.get("id") in (HELD_ID, HELD2_ID):
            ev("held", t=e["t"], v=1 if e["id"] == HELD_ID else 2)
        elif k == "req" and g in kids:
            ev("req", g=g, t=e["at"])
        elif k == "eval":
            if g == root and e["n"] == swn:
                ev("sw", t=e["t"])
            elif g in kids:
                ev("neval", g=g, t=e["t"])
        elif k == "evald" and g == root and e["n"] == swn:
            ev("swd")
        elif k == "gstart" and e.get("pg") == root and e.get("pn") == swn:
            kids.add(g)
            ev("gstart", g=g)
        elif k in ("gstarted", "gstop", "gstopped") and g in kids:
            ev(k, g=g)
        elif k == "ret":
            ev("ret", g=1 if "no branch is registered" in e.get("msg", "") else 0, v=1 if e.get("ok") == 1 else 0)
    return out


# ------------------------------------------------------------------------------------------------ corruptions
def corruptions(item):
    """hand-made corruptions of one accepted trace: [(name, clause that must reject it, corrupted item)]"""
    ev = item["ev"]
    out = []

    def mk(name, clause, new):
        it = copy.deepcopy(item)
        it["id"] = "corrupt:" + name
        it["ev"] = new
        out.append((name, clause, it))

    stops = [i for i, e in enumerate(ev) if e["e"] == "gstop" and any(x["e"] == "gstart" for x in ev[i:])]
    if stops:
        i = stops[0]
        g = ev[i]["g"]
        # the outgoing branch is never stopped
        mk("drop-stop-of-the-retired-instance", "C12.new_branch_started_while_the_previous_instance_is_still_live",
           [e for e in ev if not (e["e"] in ("gstop", "gstopped") and e["g"] == g)])
        # its stop completes only after the new branch started
        j = next(k for k in range(i, len(ev)) if ev[k]["e"] == "gstarted")
        done = next(k for k in range(i, len(ev)) if ev[k]["e"] == "gstopped" and ev[k]["g"] == g)
        new = ev[:done] + ev[done + 1:j + 1] + [ev[done]] + ev[j + 1:]
        mk("stop-completes-after-the-new-start", "C12.new_branch_started_before_the_stop_of_the_previous_instance_completed", new)
        # an evaluation of the retired instance moved behind its stop
        nv = [k for k in range(i) if ev[k]["e"] == "neval" and ev[k]["g"] == g]
        if nv:
            k = nv[-1]
            moved = dict(ev[k])
            nxt = next(x for x in range(done, len(ev)) if ev[x]["e"] == "geval")
            moved["t"] = ev[nxt]["t"]
            mk("evaluation-after-stop", "C12.stopped_branch_instance_evaluated_again",
               ev[:k] + ev[k + 1:nxt + 1] + [moved] + ev[nxt + 1:])
        # the key change does not make a new instance: the old one simply carries on
        k0 = i
        k1 = next(k for k in range(i, len(ev)) if ev[k]["e"] == "gstarted")
        newg = ev[k1]["g"]
        new = ev[:k0] + [dict(e, g=g) if e["g"] == newg else e for e in ev[k1 + 1:]]
        mk("key-change-without-new-instance", "C12.key_change_did_not_create_a_new_branch_instance", new)
    # a new instance although the key did not tick in that cycle
    gs = [i for i, e in enumerate(ev) if e["e"] == "gstart"]
    if gs:
        i = gs[-1]
        kpos = max(k for k in range(i) if ev[k]["e"] == "key")
        mk("instance-without-key-tick", "C12.branch_instance_created_without_a_key_tick", ev[:kpos] + ev[kpos + 1:])
        # the new instance is not evaluated in the cycle of its creation
        g = ev[i]["g"]
        end = next(k for k in range(i, len(ev)) if ev[k]["e"] == "swd")
        if any(e["e"] == "neval" and e["g"] == g for e in ev[i:end]) and any(e["e"] == "held" and e["v"] == 1 for e in ev[:i]):
            mk("not-evaluated-when-created", "C12.new_branch_instance_not_evaluated_in_the_cycle_it_was_created",
               ev[:i] + [e for e in ev[i:end] if e["e"] not in ("neval", "geval")] + ev[end:])
    return out


# ------------------------------------------------------------------------------------------------ the check
def run(chk, rng, nscn=None, with_models=True):
    quick = chk.tier == "quick"
    handle = models_start(quick) if with_models else None
    nscn = nscn or (150 if quick else 2000)
    scns, metas = [], []
    for s in range(nscn):
        scn, meta = gen_scenario(rng, s)
        scns.append(scn)
        metas.append(meta)
    traces = hg.run_driver("engine", scns, shards=4)
    items, note = [], {"scenarios": nscn, "instances": 0, "selections_by_changed_key": 0, "reticks_of_the_same_key": 0,
                       "returns_to_an_earlier_key": 0, "unmatched_keys_under_a_default": 0, "runs_that_must_fail": 0,
                       "reload": 0, "drift": 0}
    for i, (scn, meta, tr) in enumerate(zip(scns, metas, traces)):
        chk.count({"scn": scn})
        if isinstance(tr, dict):
            chk.violation("switch-trace:crash", "driver crashed/hung: %s" % json.dumps(tr)[:300], scn)
            continue
        if any(e["e"] in ("wirefail", "harnessfail") for e in tr) or not any(e["e"] == "ret" for e in tr):
            chk.violation("switch-trace:run-failed", "switch_ scenario could not be wired / run", scn)
            continue
        ev = project(tr)
        if ev is None:
            raise hg.MachineryError("no switch_ node in the trace of scenario %d" % i)
        items.append({"id": i, "prog": {"reload": meta["reload"], "dflt": meta["dflt"], "keys": meta["keys"]}, "ev": ev})
        ks = [k for _, k in meta["kticks"]]
        note["instances"] += sum(1 for e in ev if e["e"] == "gstart")
        note["selections_by_changed_key"] += sum(1 for a, b in zip(ks, ks[1:]) if a != b)
        note["reticks_of_the_same_key"] += sum(1 for a, b in zip(ks, ks[1:]) if a == b)
        note["returns_to_an_earlier_key"] += sum(1 for j in range(2, len(ks)) if ks[j] != ks[j - 1] and ks[j] in ks[:j - 1])
        note["unmatched_keys_under_a_default"] += sum(1 for k in ks if k not in meta["keys"]) if meta["dflt"] else 0
        note["runs_that_must_fail"] += 1 if meta["fails"] else 0
        note["reload"] += meta["reload"]
    # corruptions of the first accepted-looking trace that has a switch-over ride along
    base = next((it for it in items if sum(1 for e in it["ev"] if e["e"] == "gstart") >= 2 and
                 any(e["e"] == "neval" for e in it["ev"]) and it["ev"][-1]["v"] == 1 and not it["prog"]["reload"]), None)
    corr = corruptions(base) if base else []
    verdicts, st, trn = tracecheck.validate("SwitchTrace", "SwitchTrace.cfg", items + [c[2] for c in corr], "c12sw", shards=2 if quick else 4, keep=EVENTS)
    chk.coverage["states"] += st
    chk.coverage["transitions"] += trn
    rejected_real = {}
    for it in items:
        acc, why = verdicts[it["id"]]
        if why.startswith("DRIFT"):
            note["drift"] += 1
            if note["drift"] <= 3:
                print("DRIFT C12 switch_model scenario %s: %s" % (it["id"], why))
        elif why.startswith("C12."):
            rejected_real.setdefault(why, []).append((it, acc))
        elif why:
            raise hg.MachineryError("SwitchTrace verdict %r for scenario %s\n%s" % (why, it["id"], scns[it["id"]]))
    for why, hits in sorted(rejected_real.items()):      # one report per clause: the shortest scenario that shows it
        it, acc = min(hits, key=lambda h: len(scns[h[0]["id"]]))
        chk.violation("switch-trace:" + why, "SwitchTrace.tla rejects the real trace of %d scenario(s); this one at projected event %d (%s): %s"
                      % (len(hits), acc, json.dumps(it["ev"][acc - 1]) if 0 < acc <= len(it["ev"]) else "end", why),
                      "# C12 switch_ instance discipline: %s\n%s\n" % (why, scns[it["id"]]))
    if base and verdicts[base["id"]][1] == "":
        rejected = {}
        for name, clause, it in corr:
            got = verdicts[it["id"]][1]
            if got != clause:
                raise hg.MachineryError("corrupted trace %r must be rejected by %s, SwitchTrace said %r" % (name, clause, got))
            rejected[name] = clause
        note["corruptions_rejected"] = rejected
    chk.coverage["traces_validated_against_impl"] += len(items)
    if handle:
        note["models"] = models_finish(chk, handle)
    chk.notes["switch_model"] = note
    return note


def main():
    import argparse
    ap = argparse.ArgumentParser()
    ap.add_argument("--tier", default=None)
    ap.add_argument("--n", type=int, default=None)
    ap.add_argument("--no-models", action="store_true")
    a = ap.parse_args()
    if a.tier:
        os.environ["VERIF_TIER"] = a.tier
    chk = hg.Check("C12")
    # standalone runs keep their evidence to themselves
    hg.EVID = os.path.join(hg.OUT, "switchB", "evidence")
    rng = random.Random(hg.seed() * 7919 + 12012)
    note = run(chk, rng, nscn=a.n, with_models=not a.no_models)
    print(json.dumps(note, indent=1))
    return chk.finish()


if __name__ == "__main__":
    hg.main_wrapper(main)
