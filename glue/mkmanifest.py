#!/usr/bin/env python3
"""Regenerates /verif/MANIFEST.json from the table below (keeps it valid and in one place)."""
import json
import os
import subprocess

V = os.path.dirname(os.path.dirname(os.path.abspath(__file__)))
props = {l["id"]: l for l in map(json.loads, open(os.path.join(V, "properties.jsonl")))}

TB = ("Trusted: TLC 1.8 evaluating the TLA+ modules under /verif/spec, the g++ build of /repo's working tree (5 uncompilable TUs replaced by "
      "abort stubs), the native driver and its vocabulary nodes (they log what user code saw), the glue mapping scenarios/traces. "
      "Bounded: programs over the node vocabulary (TS<Int> payloads), horizons <= 9 cycles, the stated family sizes. ")

CHECKS = {
    "C01": ("hgv_engine", "TLC-checked TLA+ trace specification EngineTrace (at most once per cycle of each graph instance, producers before consumers, child cycle inside its node's turn) validated against traces of random DAG programs presented flat / nested / inlined / doubly nested / permuted, run on the compiled working tree; compiled edges must point forward in rank; cyclic wirings (delayed binding, no feedback) must be rejected at build time.",
            "TLC trace validation (EngineTrace) of traces recorded from the compiled tree; Dataflow.tla model-checked on the same programs", "§4 C01"),
    "C02": ("hgv_engine", "Dataflow.tla (model-checked: TimeMonotone, termination) predicts the cycle times of each program; EngineTrace validates every recorded root/nested cycle against the set of pending wake-up requests (none skipped, late, dropped or unrequested; strictly increasing; inside [start,end)).",
            "TLA+ model checking (Dataflow) + TLC trace validation (EngineTrace C02 clauses)", "§4 C02"),
    "C03": ("hgv_engine", "TLC enumerates every program of the bounded family (all DAGs over the vocabulary with <= 3 (quick) / 4 (thorough) source+compute nodes x tick histories x start times) and computes what each must produce (Dataflow.tla; invariants checked on every state); each program runs on the compiled tree and is compared stream by stream; every trace is validated event by event by EngineTrace (user code runs iff an active input ticked or an own wake-up is due and required inputs are valid; inputs read are the producers' latest values; output is the function of them).",
            "TLC model checking of an exhaustive bounded program family + spec->code replay + TLC trace validation", "§4 C03"),
    "C04": ("hgv_coll", "Collections.tla (level B: slots live / pending-erase, added / removed / modified bitsets with both cancellation branches, lazy delta roll, monotone record_modified with parent propagation, tick-window ring) is model-checked exhaustively by TLC against the level-A invariants (flags truthful, parent rule, no stale delta); its behaviours, simulated behaviours and op-dense random scripts over 9 shapes (TS, TSS, TSD, TSL, TSB, TSW and three nestings) run through the real mutation API on the compiled tree with one producer-side view and two passive consumers probing EVERY cycle (one starting late); CollTrace.tla (level A, needs only the op script) recomputes what producer and every consumer must read in every cycle - also idle ones - and rejects any disagreement (C04.* clauses).",
            "TLC exhaustive model checking of Collections.tla + behaviour replay + TLC trace validation against CollTrace.tla (level A)", "§4 C04"),
    "C05": ("hgv_coll", "Same pipeline as C04; CollTrace.tla / Delta.tla state the C05 conditions literally (value = previous value + delta from empty, added and removed disjoint, added present, removed absent and previously present, cancelled mutations leave no trace, window = last N pushes in order, valid only from the minimum count) on consecutive observations of every collection position; thorough tier crosses slot-capacity boundaries and slot reuse after erase with up to 20 keys / 30 cycles.",
            "TLC exhaustive model checking of Collections.tla + behaviour replay + TLC trace validation against CollTrace.tla / Delta.tla", "§4 C05"),
    "C06": ("hgv_engine", "Each program is wired in several admissible statement orders; all runs must produce the streams Dataflow.tla specifies (hence identical); sharing scenarios check that equal (definition, inputs, scalars) may share while differing nodes and all sinks stay distinct.",
            "Dataflow.tla prediction by TLC + differential replay of statement-order permutations / sharing scenarios on the compiled tree", "§4 C06"),
    "C07": ("hgv_iso", "Isolation.tla (process-wide registries monotone, builder recipes immutable, seed global state copied per executor, per-executor state private) is model-checked exhaustively: what an executor has produced after k phases is a function of its program alone, no executor's global state holds another program's keys; its histories - Build / Make / Step interleaved at executor-phase granularity, executors on their own threads, builders reused - are replayed into the real code through GraphExecutorBuilder::phase_runner, plus free-running groups of 2-8 concurrent executors and 8 executors created at the same instant in a fresh process; every executor's trace must equal, event by event, the trace of its program run alone in a fresh process (programs with node state, global state written and probed across programs, recordings, map_ children, feedback, self-scheduling).",
            "TLC model checking of Isolation.tla + schedule replay on threads through the public phase runner + differential against a fresh-process reference", "§4 C07"),
    "C08": ("hgv_engine", "Dataflow.tla models feedback delivery (invariant FbDelivered: every written value re-appears exactly one step later, in order, initial value at start; liveness Terminates) and is model-checked on each loop program; the real streams of feedback readers are compared with the specification and EngineTrace validates each reader event; quiescence = no cycles beyond the specified ones.",
            "TLA+ model checking (FbDelivered, Terminates) + spec->code replay + TLC trace validation", "§4 C08"),
    "C09": ("hgv_engine", "The same TLC-predicted program runs with a sub-range inlined, nested and doubly nested; streams are compared pairwise and with Dataflow.tla; EngineTrace validates child-clock rules (child time >= parent time, child cycle inside its node's turn) and any engine rule broken only by the nested presentation is a violation.",
            "Dataflow.tla prediction + differential replay (inline / nested / depth 2) + TLC trace validation", "§4 C09"),
    "C10": ("hgv_engine", "For random key histories (add / update / remove / re-add; 3 keys, thorough also 20 keys) and random mapped functions (stateful, self-scheduling, key-consuming, with a broadcast argument, throwing with per-key capture) TLC computes with Dataflow.tla what the function produces run alone with fresh state on every presence interval of every key; map_'s per-tick output delta (modified / added / removed keys and the running value) on the compiled tree must equal the composition of these, and per-key error ticks must appear under the failing key only.",
            "Dataflow.tla predictions by TLC (function run alone per key interval) + tick-by-tick comparison of map_ on the compiled tree", "§4 C10"),
    "C11": ("hgv_engine", "Reduce.tla states the required result after every cycle (invalid / zero / combine(x, zero) / fold without zero) and TLC checks on every history that the fold is independent of element order and never involves the zero with two or more live elements; random histories (growth through power-of-two capacities, shrink to empty, regrow; 2-20 keys; add_/min_/max_, sub-graph and node combiners; identity and non-identity zeros) run on the compiled tree and the result read in every cycle must equal the specification.",
            "Reduce.tla (level A fold) evaluated by TLC per history + cycle-by-cycle comparison on the compiled tree", "§4 C11"),
    "C12": ("hgv_engine", "For random switch_ programs (2-3 branches, optional default, reload on/off, one or two held inputs, key histories with flips / repeats / returns / unmatched keys) TLC computes with Dataflow.tla what each selected branch produces alone, with fresh state, on the held inputs sampled at selection time then live, for every selection interval; the switch_ output stream on the compiled tree must be exactly their concatenation, a de-selected branch instance must never be evaluated again, and an unmatched key without default must fail the run.",
            "Dataflow.tla predictions by TLC (branch run alone per selection interval) + stream comparison on the compiled tree", "§4 C12"),
    "C13": ("hgv_engine", "Dataflow.tla models a reference (if_then_else result, also a reference to a reference) as 'readers observe the referenced target': a tick with the target's current value on a retarget to a valid target, every tick of the referenced target, nothing on a republished reference or from unselected targets, validity follows the target; TLC predicts the streams of all consumers below the reference for random programs, which are run flat and with the reference crossing nested-graph boundaries (depth 1-2) on the compiled tree and compared stream by stream.",
            "TLA+ model (Dataflow.tla reference semantics) checked by TLC per program + spec->code replay, flat and across nested boundaries", "§4 C13"),
    "C14": ("hgv_engine", "Graph shape x fault set (every node x phase in start/eval/stop x occurrence, singles and pairs) x clean-up-on-error on/off are enumerated; the lifecycle trace (observer + user-code hooks) of each run on the compiled tree is validated by the TLA+ trace specification LifeTrace with TLC (start order, reverse stop order, exactly-once stop, no evaluation outside started, rollback of a failed start, nothing left started at return / release, first error reaches the caller naming node and phase).",
            "fault enumeration replayed on the compiled tree + TLC trace validation against LifeTrace.tla", "§4 C14"),
    "C15": ("hgv_engine", "Dataflow.tla specifies captured errors (the thrower writes nothing, one error tick carrying the message, nothing else changes) and is model-checked per program; chains with a thrower are run with per-node capture, try_except around a sub-graph (thrower at child index 0/1/2) and capture inside a nested child; all streams and error ticks must equal the specification and EngineTrace validates C15 clauses per event.",
            "TLA+ model checking (Dataflow) + spec->code replay + TLC trace validation (EngineTrace C15 clauses)", "§4 C15"),
    "C16": ("hgv_rt", "PushQueue.tla (level B: try_send / send_blocking split into their critical sections - control enter, stop check, policy try_send under the queue mutex, mark_push_update_pending iff the queue was empty, leave; consumer reset / try_pop / re-mark; stop = begin_close, accepting := false, clear, notify, quiescence) is model-checked exhaustively by TLC against the level-A invariants (delivered is a prefix of accepted, capacity bound at every step, refusals only when full or stopped, nothing accepted after stop) and, under weak fairness, eventual delivery; its interleavings are replayed into the real code at critical-section granularity through guarded pre-lock gates (HGRAPH_VERIF hooks), free-running multi-producer stress runs with seeded delays are recorded at the linearization points (sequence numbers taken under the protecting mutex), and every trace is validated by the level-A trace specification PushTrace with TLC.",
            "TLC exhaustive model checking of PushQueue.tla + schedule replay through hook gates + TLC trace validation (PushTrace) of free-running traces", "§4 C16"),
    "C17": ("hgv_rt", "RealTime.tla (level B: advance_realtime split into read wall / lock / predicate / wait slice / notified | timeout | spurious / compute next = min(target, max(wall, previous + 1)) / drain bound; mark-push and request-stop as lock-set-unlock-notify; an environment action moving the wall clock arbitrarily; logical timers and wall-clock alarms) is model-checked exhaustively against the level-A invariants (time strictly increases, a cycle at T only once the wall clock reached T or on the previous+1 floor, no due wake-up dropped except by the sanctioned drain cut, stop ends the run after the current cycle, no lost notification) and liveness under fairness; model behaviours and interleavings are replayed into the real executor (wall-clock offset hook, gates), free-running runs are recorded, and every trace is validated by RtTrace.tla with TLC; only lower bounds on wall time are asserted.",
            "TLC exhaustive model checking of RealTime.tla + schedule / behaviour replay through hooks + TLC trace validation (RtTrace)", "§4 C17"),
    "C18": ("hgv_engine", "NodeSched.tla - a level-B model of NodeScheduler + the graph's per-node slot + the post-evaluation re-arm rule, driven by an arbitrary user program (TLC chooses the scheduler operations of every activation and the input tick times) - is model-checked exhaustively against the level-A invariants TagsAgree / NoMissedWake / NotEarly / SlotCovers; its simulated behaviours and op-dense random scripts are replayed into a scripted scheduler node on the compiled tree (alone, in a nested child, two per graph); every recorded trace (each operation, every query answer, every activation) is validated by the level-A trace specification SchedTrace with TLC; activation times are additionally compared with the level-B prediction (DRIFT only).",
            "TLC exhaustive model checking of NodeSched.tla + behaviour replay + TLC trace validation against SchedTrace.tla", "§4 C18"),
    "C19": ("hgv_resolve", "Resolution.tla: the scenario (overload family x argument tuple x registration order) is TLC state; level A (matching under one substitution, output = substitution, no match -> error, shared best rank -> ambiguity error, unique minimum rank, same outcome in every registration order) is checked as invariants against level B (sequential matcher, the documented rank formula, stable sort + tie test) on every enumerated scenario; each scenario is replayed into the real OperatorRegistry with overloads built at run time from the tree's own pattern / rank API and every recorded resolution (selected label or error class, per-candidate ranks, bindings, output type, all orders of the family) is validated by ResolutionTrace.tla (level A, 13 clauses); rank-formula disagreements are DRIFT.",
            "TLC exhaustive model checking of Resolution.tla (families x argument tuples x registration orders) + replay + TLC trace validation", "§4 C19"),
    "C20": ("hgv_coll", "For every scripted tick history over 9 shapes: graph 1 records the writer's stream (dense_record), graph 2 replays the recording and records again; RecordReplayTrace.tla (level A) requires the two recordings equal entry by entry (same cycles, same deltas), the replayed consumer observations equal the original ones per cycle, and - per tick - apply_delta of the captured delta onto a copy of the pre-tick state to give the post-tick state and re-capture to give the same delta (Delta.tla algebra).",
            "differential replay on the compiled tree + TLC trace validation against RecordReplayTrace.tla / Delta.tla; Collections.tla model-checked as generator", "§4 C20"),
}

ENGINES = {"hgv_rt": ("/verif/harness/rt", "real-time driver: push sources fed by producer threads, stopper thread, controllable wall clock, hook handler recording linearization points, schedule-replay gates"),
           "hgv_coll": ("/verif/harness/coll", "time-series data-layer driver: scripted writer on 9 output shapes through the real mutation API, passive probes every cycle, capture/apply shadow, record -> replay second graph"),
           "hgv_resolve": ("/verif/harness/resolve", "operator-resolution driver: run-time constructed overload families registered in a given order, resolve, report selection / ranks / bindings / output type"),
           "hgv_iso": ("/verif/harness/iso", "several builders / executors in one process on several threads, gated at executor-phase granularity by the public phase_runner"),
           "hgv_engine": ("/verif/harness/engine", "native interpreter-style driver linked against the compiled working tree; scenarios in, ndjson traces out")}


def main():
    checks = []
    for pid in sorted(CHECKS):
        eng, text, tech, ref = CHECKS[pid]
        checks.append({"property_id": pid, "quick_cmd": "./check %s --tier quick" % pid, "thorough_cmd": "./check %s --tier thorough" % pid,
                       "evidence_file": "/verif/evidence/%s.json" % pid, "replay_cmd_template": "./check %s --replay {path}" % pid,
                       "engine": eng, "level_claimed": {"category": "model_checking", "text": text, "design_ref": "DESIGN.md " + ref},
                       "level_note": TB, "technique": tech})
    na = [{"property_id": pid, "reason": "check not built yet in this round (planned, DESIGN.md §4); not claimed until it runs"}
          for pid in sorted(props) if pid not in CHECKS]
    hooks = []
    try:
        out = subprocess.run(["git", "-C", "/repo", "log", "--format=%h %s"], capture_output=True, text=True).stdout
        hooks = [l.split()[0] for l in out.splitlines() if l.split(" ", 1)[1].startswith("verif-hook:")]
    except Exception:
        pass
    engines = [{"name": k, "path": v[0], "serves_properties": sorted(p for p in CHECKS if CHECKS[p][0] == k), "kind_free_text": v[1]}
               for k, v in ENGINES.items()]
    engines.append({"name": "tlc", "path": "/verif/spec", "serves_properties": sorted(CHECKS), "kind_free_text": "TLA+ specifications checked with TLC 1.8"})
    m = {"version": 1, "setup_cmd": "./setup.sh",
         "hooks": {"guard": "HGRAPH_VERIF",
                   "enable": "make -C /verif/harness HGRAPH_VERIF=1 (compile-time -DHGRAPH_VERIF=1; the default inside ./check)",
                   "baseline_off_cmd": "cd /repo && /venv/bin/python -m pytest -ra -q -p no:cacheprovider --timeout=900 --continue-on-collection-errors",
                   "source_commits": hooks, "add_only": True},
         "engines": engines, "checks": checks, "not_applicable": na,
         "notes": "All checks rebuild /repo's working tree natively (make, incremental) before running. The pinned pytest suite imports the installed wheel and never executes the working tree."}
    json.dump(m, open(os.path.join(V, "MANIFEST.json"), "w"), indent=1)
    modes = sorted({CHECKS[p][0].replace("hgv_", "") for p in CHECKS} | {"engine"})
    open(os.path.join(V, "build_modes.txt"), "w").write("\n".join(modes) + "\n")
    print("MANIFEST: %d checks, %d not_applicable" % (len(checks), len(na)))


if __name__ == "__main__":
    main()
