#!/usr/bin/env python3
"""C07: reproducible and isolated simulation runs.  Isolation.tla is model-checked (registries monotone, recipes immutable,
per-executor state private) and its histories - interleavings of Build / Make / Step at executor-phase granularity on
several threads - are replayed into the real code by hgv_iso (gate = GraphExecutorBuilder::phase_runner); every executor's
trace must equal the reference trace of its program run alone in a fresh process."""
import argparse
import hashlib
import json
import os
import random
import subprocess
import sys

sys.path.insert(0, os.path.dirname(os.path.abspath(__file__)))
import hg

KINDS = {"fn", "rec", "drec", "rrec", "err", "kerr", "ret", "sact", "sop", "recbuf"}


def canon(events):
    out = []
    for e in events:
        if e["e"] in KINDS or (e["e"] == "cycle" and e.get("g") == 0):
            out.append(json.dumps(e, sort_keys=True))
    return out


def program_pool(rng):
    """programs that would expose shared state: node state, global state written and probed, recordings, dynamic children,
    feedback, self-scheduling"""
    s1 = ";".join("%d:%d" % (t, rng.choice([1, 2, 3, 5])) for t in sorted(rng.sample(range(1, 7), 4)))
    s2 = ";".join("%d:%d" % (t, rng.choice([1, 2, 4])) for t in sorted(rng.sample(range(1, 7), 3)))
    p0 = ["scn pa", "opt start=1 end=8", "graph root", "n 1 src script=" + s1, "n 2 timer p=1 cnt=6", "n 3 gprobe key=ka in=2",
          "n 4 rec in=3", "n 5 acc in=1", "n 6 gset key=ka in=5", "n 7 rec in=5", "n 8 gprobe key=kb in=2", "n 9 rec in=8",
          "n 10 grec key=r in=5", "endgraph"]
    p1 = ["scn pb", "opt start=1 end=8", "graph g0 nin=1", "n 20 acc in=a0", "n 21 delay d=1 in=20", "out 21", "endgraph", "graph root",
          "n 1 timer p=2 cnt=3", "n 2 count in=1", "n 3 gprobe key=kb in=1", "n 4 rec in=3", "n 5 gset key=kb in=2",
          "n 6 dsrc script=1:1=%d,2=3;3:1=4,-2;4:3=1;6:-1" % rng.choice([2, 5]), "n 7 map g=0 in=6", "n 8 drec in=7",
          "n 9 gprobe key=ka in=1", "n 11 rec in=9", "n 12 grec key=r in=2", "endgraph"]
    p2 = ["scn pc", "opt start=1 end=8", "graph root", "n 1 src script=" + s2, "n 2 fb init=1", "n 3 sumu in=1,2", "n 4 delay d=2 in=3",
          "n 5 rec in=4", "n 6 rec in=2", "n 7 gprobe key=ka in=1", "n 8 rec in=7", "n 9 gset key=kc in=3", "n 10 gprobe key=kc in=4",
          "n 11 rec in=10", "bind 2 3", "endgraph"]
    # "type neighbours": the same node shapes over types that differ in one parameter only (window warm-up or period,
    # list size) - process-wide type interning must keep them apart whichever graph was realised first
    wa, wb = rng.choice([((3, 3), (3, 1)), ((3, 1), (3, 3)), ((3, 2), (3, 3)), ((2, 1), (2, 2)), ((2, 2), (3, 2)), ((3, 1), (2, 1))])
    s3 = ";".join("%d:%d" % (t, rng.choice([1, 2, 3, 5])) for t in sorted(rng.sample(range(1, 7), 5)))
    p3 = ["scn pd", "opt start=1 end=8", "graph root", "n 1 src script=" + s3, "n 2 wsum p=%d m=%d in=1" % wa, "n 3 rec in=2",
          "n 4 count in=1", "n 5 lsum in=1,4", "n 6 rec in=5", "n 7 grec key=r in=2", "endgraph"]
    p4 = ["scn pe", "opt start=1 end=8", "graph root", "n 1 src script=" + s3, "n 2 wsum p=%d m=%d in=1" % wb, "n 3 rec in=2",
          "n 4 count in=1", "n 5 lsum3 in=1,4,2", "n 6 rec in=5", "n 7 grec key=r in=5", "endgraph"]
    # recorders whose first tick comes early / late (what a later run would find in a buffer left behind by an earlier one)
    s5 = ";".join("%d:%d" % (t, rng.choice([1, 2, 3])) for t in sorted(rng.sample(range(rng.choice([1, 3, 5]), 8), 2)))
    p5 = ["scn pf", "opt start=1 end=9", "graph root", "n 1 src script=" + s5, "n 2 acc in=1", "n 3 grec key=r in=2", "n 4 rec in=2", "endgraph"]
    # one producer fanned out to many rank-independent consumers that write the same global-state key: whichever runs last
    # wins, so the order among them is observable - it must not depend on what was built before in the process
    fan = ["n %d add k=%d in=1" % (10 + i, i) for i in range(1, 9)] + ["n %d gset key=kz in=%d" % (30 + i, 10 + i) for i in range(1, 9)]
    p6 = ["scn pg", "opt start=1 end=8", "graph root", "n 1 src script=" + s1, "n 2 timer p=1 cnt=7"] + fan + \
         ["n 50 gprobe key=kz in=2", "n 51 rec in=50", "endgraph"]
    return ["\n".join(p) for p in (p0, p1, p2, p3, p4, p5, p6)]


def iso_text(name, progs, tokens):
    lines = ["iso " + name]
    for p in progs:
        lines += ["prog", p, "endprog"]
    lines += ["hist " + " ".join(tokens), "runiso"]
    return "\n".join(lines)


def split_execs(events):
    """-> (main events, [(exec header, events)])"""
    main, execs, cur = [], [], None
    for e in events:
        if e["e"] == "exec":
            cur = (e, [])
            execs.append(cur)
        elif cur is None:
            main.append(e)
        else:
            cur[1].append(e)
    return main, execs


def main():
    ap = argparse.ArgumentParser()
    ap.add_argument("pid")
    ap.add_argument("--tier", default=None)
    ap.add_argument("--replay", default=None)
    a = ap.parse_args()
    if a.tier:
        os.environ["VERIF_TIER"] = a.tier
    hg.build(("engine", "iso"))
    if a.replay:
        scn = "\n".join(l for l in open(a.replay).read().splitlines() if not l.startswith("#"))
        tr = hg.run_driver("iso", [scn])[0]
        print("\n".join(json.dumps(e) for e in tr) if not isinstance(tr, dict) else json.dumps(tr))
        return 0
    chk = hg.Check("C07")
    rng = random.Random(hg.seed() * 977 + 7)
    quick = chk.tier == "quick"
    res = hg.tlc("Isolation", "Isolation.quick.cfg" if quick else "Isolation.thorough.cfg", timeout=3600)
    if res.violation:
        raise hg.MachineryError("Isolation.tla violates its invariants:\n" + res.violation)
    chk.add_tlc(res, "Isolation-exhaustive")
    chk.coverage["exhaustive"] = True
    sim = hg.tlc("Isolation", "Isolation.sim.cfg", workers=8, simulate="num=%d" % (40 if quick else 600), depth=40, timeout=600,
                 extra=["-seed", str(hg.seed())])
    hists = hg.printed_json(sim, "ISO")
    chk.notes["model_histories"] = len(hists)
    # the GlobalContext extension of the model (runs that follow one another, copy-back, recorder reset) and the two
    # named faults, which TLC must reject
    resc = hg.tlc("Isolation", "Isolation.ctx.cfg", timeout=1800)
    if resc.violation:
        raise hg.MachineryError("Isolation.tla (context) violates its invariants:\n" + resc.violation)
    chk.add_tlc(resc, "Isolation-context-exhaustive")
    chk.add_tlc(hg.expect_violation("Isolation", "Isolation.fault_key.cfg", "SchemaIsOwn", timeout=600), "fault:intern-key-drops-a-parameter")
    chk.add_tlc(hg.expect_violation("Isolation", "Isolation.fault_erase.cfg", "RecordedIsOwn", timeout=600), "fault:recorder-keeps-earlier-buffer")
    simc = hg.tlc("Isolation", "Isolation.ctxsim.cfg", workers=8, simulate="num=%d" % (20 if quick else 300), depth=40, timeout=600,
                  extra=["-seed", str(hg.seed() + 1)])
    chists = hg.printed_json(simc, "ISO")
    chk.notes["model_context_histories"] = len(chists)
    scns, metas = [], []
    pools = [program_pool(rng) for _ in range(4)]

    def toks(h):
        return ["%s%d" % (op, arg) if op not in ("F", "G") else op for op, arg in h]
    for k, h in enumerate(hists):
        pool = pools[k % len(pools)]
        progs = (pool[:2], [pool[2], pool[0]], [pool[3], pool[4]], [pool[4], pool[3]], [pool[3], pool[1]], [pool[6], pool[1]], [pool[0], pool[6]])[k % 7]
        scns.append(iso_text("h%d" % k, progs, toks(h)))
        metas.append(progs)
    for k, h in enumerate(chists):
        pool = pools[k % len(pools)]
        progs = ([pool[3], pool[4]], [pool[4], pool[3]], [pool[5], pool[3]])[k % 3]     # model programs 0 / 1 are type neighbours
        scns.append(iso_text("c%d" % k, progs, toks(h)))
        metas.append(progs)
    # free-running: many executors at once, builders reused, no gates
    for k in range(25 if quick else 400):
        pool = pools[k % len(pools)]
        nb = rng.randint(1, 3)
        progs = [rng.choice(pool) for _ in range(nb)]
        tokens = ["B%d" % i for i in range(nb)] + ["Y%d" % rng.randrange(nb) for _ in range(rng.randint(2, 8))] + ["F"]
        scns.append(iso_text("free%d" % k, progs, tokens))
        metas.append(progs)
    # runs that follow one another inside ONE GlobalContext (the finished run's global state is copied back and seeds the
    # next build): a recorder starts from an empty buffer whatever an earlier run recorded under the same key
    for k in range(30 if quick else 300):
        pool = pools[k % len(pools)]
        nruns = rng.randint(2, 4)
        progs = [rng.choice(pool[3:6]) for _ in range(nruns)]
        tokens = ["G"]
        for i in range(nruns):
            tokens += ["B%d" % i, "X%d" % i, "F", "W%d" % i]
        scns.append(iso_text("ctx%d" % k, progs, tokens))
        metas.append(progs)
    # another thread holds an open GlobalContext (it wired and ran a program inside it and copied the result back) while this
    # thread builds and runs graphs outside any context: they must behave as if run alone
    for k in range(20 if quick else 200):
        pool = pools[k % len(pools)]
        writer = pool[rng.choice([0, 1, 2])]
        readers = [rng.choice(pool[:3]) for _ in range(rng.randint(1, 2))]
        progs = [writer] + readers
        tokens = ["H0"]
        for i in range(1, len(progs)):
            tokens += ["B%d" % i, "X%d" % (i - 1)]
        tokens += ["F"]
        scns.append(iso_text("held%d" % k, progs, tokens))
        metas.append(progs)
    # one open wiring built twice (Wiring::snapshot, the interactive flow): both builders, run one after the other or at the
    # same time, behave like the program built once and run alone
    for k in range(16 if quick else 160):
        pool = pools[k % len(pools)]
        progs = [pool[k % 7]]
        tokens = ["N0"] + (["X0", "F", "W0", "X1", "F"] if k % 2 == 0 else ["Y0", "Y1", "F"])
        scns.append(iso_text("snap%d" % k, progs, tokens))
        metas.append(progs)
    # first use: many executors created at the same instant in a fresh process (lazily initialised process-wide state)
    first_use = []
    for k in range(40 if quick else 400):
        pool = pools[k % len(pools)]
        progs = [pool[k % 7]]
        first_use.append(len(scns))
        scns.append(iso_text("first%d" % k, progs, ["B0"] + ["Y0"] * 8 + ["F"]))
        metas.append(progs)
    # reference: every distinct program alone, in a fresh process
    distinct = sorted({p for progs in metas for p in progs})
    refs = {}
    for p in distinct:
        r = subprocess.run([os.path.join(hg.BUILD, "hgv_engine")], input=p + "\nrun\n", capture_output=True, text=True, timeout=60)
        ev = [json.loads(l) for l in r.stdout.splitlines() if l.startswith("{")]
        refs[p] = canon([e for e in ev if e["e"] != "done"])
        if not any('"ret"' in x for x in refs[p]):
            raise hg.MachineryError("reference run failed for program:\n" + p)
    # every iso scenario in its own fresh process: first-use races only exist there, and a crash is attributed exactly
    from concurrent.futures import ThreadPoolExecutor

    def one(i):
        return hg.run_driver("iso", [scns[i]], shards=1)[0]
    with ThreadPoolExecutor(max_workers=hg.NCPU) as ex:
        runs = list(enumerate(ex.map(one, range(len(scns)))))
    nexec = 0
    for i, tr in runs:
        scn, progs = scns[i], metas[i]
        chk.count({"scn": scn})
        if isinstance(tr, dict):
            chk.violation("crash", "hgv_iso crashed/hung: %s" % json.dumps(tr)[:300], scn)
            continue
        main_ev, execs = split_execs(tr)
        if any(e["e"] == "harnessfail" for e in main_ev):
            chk.violation("harness", "iso harness failure: %s" % [e for e in main_ev if e["e"] == "harnessfail"], scn)
            continue
        for hdr, ev in execs:
            nexec += 1
            want = refs[progs[hdr["p"]]]
            got = canon(ev)
            fails = [e for e in ev if e["e"] == "harnessfail"]
            if fails:
                chk.violation("exec-failed:" + fails[0]["msg"][:40], "executor %d (program %d) could not run next to the others: %s"
                              % (hdr["x"], hdr["p"], fails[0]["msg"][:200]), "# C07\n" + scn + "\n")
                break
            if got != want:
                k = next((j for j in range(min(len(got), len(want))) if got[j] != want[j]), min(len(got), len(want)))
                chk.violation("differs", "executor %d (program %d, builder %d) differs from the same program run alone at event %d: alone %s, here %s"
                              % (hdr["x"], hdr["p"], hdr["b"], k, want[k] if k < len(want) else "<end>", got[k] if k < len(got) else "<end>"),
                              "# C07\n" + scn + "\n")
                break
    # first executors of MANY fresh builders, one process: every block compiles a structurally new graph (new entries in the
    # process-wide runtime registries) while 8 threads make their executors at the same instant
    nproc, nblocks = (6, 60) if quick else (60, 120)

    def race_text(seed):
        r = random.Random(seed)
        blocks = []
        for k in range(nblocks):
            n = r.randint(2, 9)
            lines = ["iso race%d" % k, "prog", "scn r%d" % k, "opt start=1 end=5", "graph root", "n 1 src script=1:1;2:2"]
            for i in range(2, n + 1):
                lines.append("n %d %s in=%d" % (i, r.choice(["pass", "acc", "count", "add"]), r.randint(1, i - 1)))
            lines += ["n %d rec in=%d" % (n + 1, n), "endgraph", "endprog", "hist B0 " + " ".join(["Y0"] * 8) + " F", "runiso"]
            blocks.append("\n".join(lines))
        return "\n".join(blocks) + "\n"

    def race_one(seed):
        text = race_text(seed)
        try:
            r = subprocess.run([os.path.join(hg.BUILD, "hgv_iso")], input=text, capture_output=True, text=True, timeout=600)
        except subprocess.TimeoutExpired:
            return text, "the process hung"
        fails = [l for l in r.stdout.splitlines() if '"harnessfail"' in l]
        done = sum(1 for l in r.stdout.splitlines() if l.startswith('{"e":"done"'))
        if r.returncode != 0:
            return text, "the process died with status %s after %d of %d groups" % (r.returncode, done, nblocks)
        if fails:
            return text, "make_executor / run failed: %s" % fails[0][:200]
        return text, None
    with ThreadPoolExecutor(max_workers=4) as ex:
        for text, bad in ex.map(race_one, [rng.randrange(1 << 30) for _ in range(nproc)]):
            chk.count({"race": hashlib.sha1(text.encode()).hexdigest()})
            nexec += 8 * nblocks
            if bad:
                chk.violation("concurrent-first-executors", "8 executors made at the same instant from a freshly wired builder, %d fresh builders "
                              "in one process: %s (a race: the replay may need several attempts)" % (nblocks, bad), "# C07\n" + text)
    chk.notes["executors_compared_with_reference"] = nexec
    chk.coverage["traces_validated_against_impl"] += nexec
    chk.sample({"scenario": scns[0].splitlines()})
    chk.sample({"scenario": scns[-1].splitlines()})
    chk.coverage["rule"] = ("Isolation.tla histories (<= 2 builders, <= 3 executors, gated steps; builder reuse, executors of different programs "
                            "interleaved phase by phase on their own threads) plus free-running groups of 2-8 concurrent executors; programs with "
                            "node state, global state written and probed (own key and the other programs' keys), recordings, map_ children, "
                            "feedback and self-scheduling; every executor trace compared event by event with the program run alone in a fresh "
                            "process; part of the scenarios run one per fresh process; distinct = distinct scenario text")
    return chk.finish()


if __name__ == "__main__":
    hg.main_wrapper(main)
