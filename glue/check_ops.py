#!/usr/bin/env python3
"""Higher-order operators (C10 map_, C11 reduce, C12 switch_, C13 references): the expected behaviour is composed
from what spec/Dataflow.tla says the mapped / selected function produces *run alone* (TLC computes that for
every key interval / branch interval), and compared tick by tick with what the operator produces on the compiled
working tree.

usage: check_ops.py <Cxx> [--tier quick|thorough] [--replay <scenario file>]
"""
import argparse
import json
import os
import random
import sys

sys.path.insert(0, os.path.dirname(os.path.abspath(__file__)))
import dfcheck
import hg
import programs as P


# ------------------------------------------------------------------------------------------------ helpers
def fn_graph(rng, base_id, keyed, bcast, allow_throw=False):
    """A mapped function as a small sub-graph over a0 (element), a1 (broadcast), key.
    Returns list of (id, kind, params dict, ins as refs 'a0' | 'a1' | 'key' | int id) and the output id."""
    nodes = []
    prev = "a0"
    nid = base_id
    n = rng.randint(1, 3)
    used_key = used_b = False
    for j in range(n):
        choices = ["pass", "add", "acc", "count", "delay"]
        if keyed and not used_key:
            choices += ["keymix", "keymix"]
        if bcast and not used_b:
            choices += ["sumu", "sumu"]
        if allow_throw and not any(x[1] == "throwneg" for x in nodes):
            choices += ["throwneg"] * 2
        if any(x[1] == "throwneg" for x in nodes):
            # a self-scheduling node ranked after a failing node loses its wake-up when the child cycle is aborted;
            # it depends on the failing node, which the property leaves open - keep such nodes out (DESIGN.md §6.2)
            choices = [c for c in choices if c not in ("delay", "sumu")]   # sumu: a second active input (broadcast) would be missed too
        kind = rng.choice(choices)
        if kind == "keymix":
            nodes.append((nid, kind, {}, ["key", prev]))
            used_key = True
        elif kind == "sumu":
            nodes.append((nid, kind, {}, [prev, "a1"]))
            used_b = True
        else:
            nodes.append((nid, kind, {"k": rng.randint(1, 2)}, [prev]))
        prev = nid
        nid += 1
    return nodes, prev


def fn_stmt(n):
    nid, kind, par, ins = n
    s = "n %d %s" % (nid, kind)
    if kind == "add":
        s += " k=%d" % par["k"]
    elif kind == "delay":
        s += " d=%d" % par["k"]
    return s + " in=" + ",".join(str(x) for x in ins)


def flat_program(pid, fnodes, fout, elem, key, bstream, a, r):
    """The function run alone: src(elem) [, src(key)] [, src(bcast)] -> F -> rec, window [a, r)."""
    nodes = [P.node("src", script=elem)]
    ref = {"a0": 1}
    if any("key" in n[3] for n in fnodes):
        nodes.append(P.node("src", script=[[a, key]]))
        ref["key"] = len(nodes)
    if any("a1" in n[3] for n in fnodes):
        nodes.append(P.node("src", script=bstream))
        ref["a1"] = len(nodes)
    idmap = {}
    for nid, kind, par, ins in fnodes:
        nodes.append(P.node(kind, ins=[ref[x] if isinstance(x, str) else idmap[x] for x in ins], k=par.get("k", 0),
                            cap=1 if kind == "throwneg" else 0))
        idmap[nid] = len(nodes)
    out = idmap[fout]
    nodes.append(P.node("rec", ins=[out]))
    p = P.program(pid, nodes, start=a, end=r)
    p["_out"] = out
    p["_idmap"] = dict(idmap, a0=1)
    p["_thrower"] = [idmap[n[0]] for n in fnodes if n[1] == "throwneg"]
    return p


def held_stream(ticks, a, r):
    """what a newly created child sees of a held (broadcast / switch) input: its current value at creation time a
    (sampled: presented as a tick at a), then the live ticks in (a, r)"""
    cur = None
    for t, v in ticks:
        if t <= a:
            cur = v
    s = [[a, cur]] if cur is not None else []
    s += [[t, v] for t, v in ticks if a < t < r]
    return s


# ------------------------------------------------------------------------------------------------ C10 map_
def dict_history(rng, keys, horizon, maxops=3):
    """per cycle list of ('set', k, v) / ('del', k); returns ops by time and the presence intervals per key"""
    present = set()
    hist = {}
    for t in range(1, horizon + 1):
        if rng.random() < 0.25:
            continue
        ops = []
        touched = set()
        for _ in range(rng.randint(1, maxops)):
            k = rng.choice(keys)
            if k in touched:
                continue
            touched.add(k)
            if k in present and rng.random() < 0.35:
                ops.append(("del", k, 0))
                present.discard(k)
            else:
                ops.append(("set", k, rng.choice([1, 2, 3, 5, -1, -2])))
                present.add(k)
        if ops:
            hist[t] = ops
    return hist


def intervals(hist, horizon):
    """key -> list of (a, r, element stream [[t, v], ...]) ; r = removal time or horizon + 1"""
    out, cur = {}, {}
    for t in sorted(hist):
        for op, k, v in hist[t]:
            if op == "set":
                if k not in cur:
                    cur[k] = [t, []]
                cur[k][1].append([t, v])
            else:
                a, el = cur.pop(k)
                out.setdefault(k, []).append((a, t, el))
    for k, (a, el) in cur.items():
        out.setdefault(k, []).append((a, horizon + 1, el))
    return out


def dscript(hist):
    return ";".join("%d:%s" % (t, ",".join(("%d=%d" % (k, v)) if op == "set" else ("-%d" % k) for op, k, v in hist[t])) for t in sorted(hist))


INV = -888888


def two_dict_scenario(rng, s, keys, horizon, hist1, pid0):
    """map_ over two multiplexed dictionaries with differing key sets: one child per key of the UNION; an element missing
    on one side is an input without a value.  The mapped function starts with a node that needs both sides."""
    hist2 = dict_history(rng, keys, horizon, maxops=3)
    first = rng.choice(["sum2", "lsum"])
    fnodes = [(10, first, {}, ["a0", "a1"])]
    prev, nid = 10, 11
    for _ in range(rng.randint(0, 2)):
        fnodes.append((nid, rng.choice(["pass", "add", "acc", "count", "delay"]), {"k": rng.randint(1, 2)}, [prev]))
        prev, nid = nid, nid + 1
    fout = prev
    lines = ["scn map2d%d" % s, "opt start=1 end=%d" % (horizon + 1), "graph g0 nin=2"] + [fn_stmt(n) for n in fnodes] + ["out %d" % fout, "endgraph",
             "graph root", "n 1 dsrc script=" + dscript(hist1), "n 2 dsrc script=" + (dscript(hist2) or "99:1=1"),
             "n 3 map g=0 in=1,2 dicts=2", "n 4 drec in=3", "endgraph", "run"]
    # presence of each key on each side over time
    ips, prs = [], []
    for k in keys:
        ev = []   # (t, side, op, v)
        for side, h in ((0, hist1), (1, hist2)):
            for t in sorted(h):
                for op, kk, v in h[t]:
                    if kk == k:
                        ev.append((t, side, op, v))
        ev.sort()
        present = [False, False]
        cur = None
        for t in sorted({e[0] for e in ev}):
            before = present[0] or present[1]
            todays = [e for e in ev if e[0] == t]
            for _, side, op, v in todays:
                present[side] = (op == "set")
            after = present[0] or present[1]
            if not before and after:
                cur = {"a": t, "s": [[], []]}
            if cur is not None:
                for _, side, op, v in todays:
                    cur["s"][side].append([t, v if op == "set" else INV])
            if before and not after and cur is not None:
                ips.append((k, cur["a"], t, cur["s"]))
                cur = None
        if cur is not None:
            ips.append((k, cur["a"], horizon + 1, cur["s"]))
    out = []
    for k, a, r, streams in ips:
        # the removal that ends the interval is not an input event of the run-alone function
        s0 = [x for x in streams[0] if x[0] < r]
        s1 = [x for x in streams[1] if x[0] < r]
        p = flat_program(pid0 + len(prs), fnodes, fout, s0, k, s1, a, r)
        prs.append(p)
        out.append((k, a, r, p))
    return "\n".join(lines), out, prs


def check_c10(chk, rng, nscn=None, force_throw=False, with_models=True, tag="c10"):
    """nscn / force_throw / with_models: the C15 check runs the keyed-error part of this family under its own name
    (every mapped function throws on some inputs, per-key capture on)."""
    quick = chk.tier == "quick"
    # level B of the keyed parent's scheduling (lazy heap of child wake-ups, sparse candidate set, pull, drain, re-arm):
    # exhaustive, and each named fault must be rejected (runs in the background, collected at the end)
    models = hg.models_start([("MapSched", "MapSched.none.cfg" if quick else "MapSched.thorough.cfg", None, "MapSched-exhaustive")] +
                             [("MapSched", "MapSched.%s.cfg" % f, inv, "MapSched-fault:" + f)
                              for f, inv in (("lt", "NoLostWakeup"), ("back", "ParentCovers"), ("nopull", "ParentCovers"), ("noobserve", "NoLostWakeup"))]) if with_models else None
    nscn = nscn or (450 if quick else 2500)
    scns, metas, progs = [], [], []
    pid = 1
    for s in range(nscn):
        big = (not quick) and s % 5 == 0
        keys = list(range(1, (20 if big else 3) + 1))
        horizon = 12 if big else rng.choice([5, 6, 7])
        hist = dict_history(rng, keys, horizon, maxops=6 if big else 3)
        if not hist:
            continue
        two_dicts = rng.random() < 0.3 and not force_throw
        if two_dicts:
            scn, ips, prs = two_dict_scenario(rng, s, keys, horizon, hist, pid)
            pid += len(prs)
            progs += prs
            scns.append(scn)
            metas.append((hist, ips, horizon))
            continue
        keyed = rng.random() < 0.4
        bcast = rng.random() < 0.4
        throws = force_throw or rng.random() < 0.3
        fnodes, fout = fn_graph(rng, 10, keyed, bcast, allow_throw=throws)
        keyed = any("key" in n[3] for n in fnodes)
        bticks = P.gen_script(rng, horizon, maxlen=3, values=(10, 20, 30)) if bcast else []
        uses_b = any("a1" in n[3] for n in fnodes)
        lines = ["scn map%d" % s, "opt start=1 end=%d" % (horizon + 1), "graph g0 nin=%d" % (2 if uses_b else 1)]
        lines += [fn_stmt(n) for n in fnodes] + ["out %d" % fout, "endgraph", "graph root",
                                                "n 1 dsrc script=" + dscript(hist)]
        if uses_b:
            lines.append("n 2 src script=" + ";".join("%d:%d" % (t, v) for t, v in bticks))
        lines.append("n 3 map g=0 key=%d err=%d in=1%s" % (1 if keyed else 0, 1 if throws else 0, ",2" if uses_b else ""))
        lines += ["n 4 drec in=3", "endgraph", "run"]
        scn = "\n".join(lines)
        ivs = intervals(hist, horizon)
        ips = []
        for k, lst in ivs.items():
            for (a, r, el) in lst:
                p = flat_program(pid, fnodes, fout, el, k, held_stream(bticks, a, r), a, r)
                pid += 1
                progs.append(p)
                ips.append((k, a, r, p))
        scns.append(scn)
        metas.append((hist, ips, horizon))
    preds, res = dfcheck.predict(progs, tag=tag)
    chk.add_tlc(res, "run-alone" if tag == "c10" else "keyed-map-run-alone")
    traces = hg.run_driver("engine", scns)
    nkeys = 0
    for scn, (hist, ips, horizon), tr in zip(scns, metas, traces):
        chk.count({"scn": scn})
        if isinstance(tr, dict):
            chk.violation("crash", "driver crashed/hung: %s" % json.dumps(tr)[:300], scn)
            continue
        bad = [e for e in tr if e["e"] in ("wirefail", "harnessfail")]
        ret = [e for e in tr if e["e"] == "ret"]
        if bad or not ret or ret[0]["ok"] != 1:
            chk.violation("run-failed", "map_ scenario did not run to completion: %s" % (bad or ret), scn)
            continue
        # expected timeline of the map output
        writes, removes, errs = {}, {}, []
        for k, a, r, p in ips:
            pr = preds[p["id"]]
            ws = [(t, v) for t, i, v in pr["writes"] if i == p["_out"]]
            for t, v in ws:
                writes.setdefault(t, []).append((k, v, t == ws[0][0]))
            if ws and r <= horizon:
                removes.setdefault(r, []).append(k)
            errs += [(t, k, "neg %d" % v) for t, i, v in pr["errs"]]
            nkeys += 1
        want = {}
        for t in sorted(set(writes) | set(removes)):
            want[t] = {"mod": sorted([k, v] for k, v, first in writes.get(t, [])),
                       "add": sorted(k for k, v, first in writes.get(t, []) if first),
                       "rem": sorted(removes.get(t, []))}
        got = {e["t"]: {"mod": e["mod"], "add": e["add"], "rem": e["rem"]} for e in tr if e["e"] == "drec" and e["id"] == 4}
        # a tick of the output dictionary that changes nothing (e.g. a key whose child never produced a value was
        # removed) is not excluded by the property: ignored, counted
        empty = [t for t, d in got.items() if not d["mod"] and not d["add"] and not d["rem"]]
        chk.notes["empty_output_ticks"] = chk.notes.get("empty_output_ticks", 0) + len(empty)
        for t in empty:
            del got[t]
        if want != got:
            tdiff = next(t for t in sorted(set(want) | set(got)) if want.get(t) != got.get(t))
            chk.violation("map-stream", "map_ output at cycle %d: each key run alone (Dataflow.tla) gives %s, map_ produced %s"
                          % (tdiff, want.get(tdiff), got.get(tdiff)), "# C10 map_\n" + scn + "\n")
            continue
        # the value (all valid children) must be the running application of the deltas (also checked by C05)
        val = {}
        for e in tr:
            if e["e"] == "drec" and e["id"] == 4:
                for k in e["rem"]:
                    val.pop(k, None)
                for k, v in e["mod"]:
                    val[k] = v
                if sorted(val.items()) != sorted(map(tuple, e["val"])):
                    chk.violation("map-value", "map_ output value at %d is %s, deltas give %s" % (e["t"], e["val"], sorted(val.items())), scn)
                    break
        gote = sorted((e["t"], e["k"], e["msg"]) for e in tr if e["e"] == "kerr")
        if sorted(errs) != gote and any(n[1] == "throwneg" for n in []):
            pass
        empty_err = [e["t"] for e in tr if e["e"] == "kerrtick" and e["nmod"] == 0 and e["nrem"] == 0]
        if empty_err:
            chk.violation("map-error-empty-tick", "the per-key error output ticked at %s with nothing to report (no exception in that cycle, no "
                          "failed key removed)" % empty_err, "# C10/C15 error output ticks without an error\n" + scn + "\n")
        if any("throwneg" in l for l in scn.splitlines()) and sorted(errs) != gote:
            chk.violation("map-error-key", "per-key errors: specified %s, observed %s" % (sorted(errs), gote), "# C10/C15 keyed error\n" + scn + "\n")
    if models:
        hg.models_finish(chk, models)
    chk.notes["key_intervals_checked"] = nkeys
    if tag != "c10":
        return
    chk.coverage["traces_validated_against_impl"] += len(scns)   # each run compared tick by tick with TLC's predictions
    for k in (0, 1):
        if k < len(scns):
            chk.sample({"scenario": scns[k].splitlines()})
    chk.coverage["rule"] = ("random key histories (add / update / remove / re-add, several keys per cycle) over 3 keys (thorough: also 20 keys, 12 cycles) x "
                            "random mapped functions of 1-3 nodes (stateful, self-scheduling, key-consuming, with a broadcast argument, throwing with "
                            "per-key capture); expectation = Dataflow.tla on each key's presence interval run alone with fresh state; "
                            "distinct = distinct scenario text")


# ------------------------------------------------------------------------------------------------ C12 switch_
def branch_graph(rng, base_id, two):
    nodes, prev, nid = [], "a0", base_id
    for j in range(rng.randint(1, 3)):
        choices = ["pass", "add", "acc", "count", "delay"]
        if two and j == 0:
            choices += ["sumu", "sum2", "sum2"]
        kind = rng.choice(choices)
        if kind in ("sumu", "sum2"):
            nodes.append((nid, kind, {}, [prev, "a1"]))
        else:
            nodes.append((nid, kind, {"k": rng.randint(1, 3)}, [prev]))
        prev = nid
        nid += 1
    return nodes, prev


def check_c12(chk, rng):
    quick = chk.tier == "quick"
    nscn = 700 if quick else 4000
    scns, metas, progs = [], [], []
    pid = 1
    for s in range(nscn):
        horizon = rng.choice([6, 7, 9])
        two = rng.random() < 0.35
        nb = rng.randint(2, 3)
        branches = [branch_graph(rng, 10 * (b + 1), two) for b in range(nb)]
        has_default = rng.random() < 0.3
        # the default is either one of the keyed definitions or a definition of its own, larger than every keyed one
        own_default = has_default and rng.random() < 0.6
        if own_default:
            for b in range(nb):
                while len(branches[b][0]) > 2:
                    branches[b] = branch_graph(rng, 10 * (b + 1), two)
            d = branch_graph(rng, 10 * (nb + 1), two)
            while len(d[0]) < 3:
                d = branch_graph(rng, 10 * (nb + 1), two)
            branches.append(d)
        dflt = nb if own_default else nb - 1
        reload = rng.random() < 0.3
        unmatched = (not has_default) and rng.random() < 0.12
        # with a default branch several different unmatched keys are all served by it: each change of key is still a
        # new selection (fresh instance), although the branch definition stays the same
        keyvals = list(range(1, nb + 1)) + ([7, 8, 8] if has_default else [7] if unmatched else [])
        # key history: rapid flips, repeats, flip in the same cycle as an input tick, return to an earlier key
        kticks = []
        for t in sorted(rng.sample(range(1, horizon + 1), rng.randint(1, min(5, horizon)))):
            prev = kticks[-1][1] if kticks else None
            pool = [k for k in keyvals if k not in (7, 8) or has_default or (unmatched and t > horizon // 2)]
            if prev is not None and rng.random() < 0.25:
                kticks.append([t, prev])
            else:
                kticks.append([t, rng.choice(pool)])
        ts1 = P.gen_script(rng, horizon, maxlen=5)
        ts2 = P.gen_script(rng, horizon, maxlen=3, values=(10, 20)) if two else []
        lines = ["scn sw%d" % s, "opt start=1 end=%d" % (horizon + 1)]
        # three: the branches return a three-element list assembled from three ports - the last node, the first node and
        # the held input itself - so the switch output is a forwarding tree with three leaves
        three = rng.random() < 0.3
        outs3 = [[fout, fn[0][0], "a0"] for fn, fout in branches]
        for b, (fn, fout) in enumerate(branches):
            lines += ["graph g%d nin=%d" % (b, 2 if two else 1)] + [fn_stmt(n) for n in fn] + \
                     ["out %s" % (",".join(str(x) for x in outs3[b]) if three else fout), "endgraph"]
        lines += ["graph root", "n 1 src script=" + ";".join("%d:%d" % (t, v) for t, v in kticks),
                  "n 2 src script=" + ";".join("%d:%d" % (t, v) for t, v in ts1)]
        if two:
            lines.append("n 5 src script=" + ";".join("%d:%d" % (t, v) for t, v in ts2))
        cases = ",".join("%d:%d" % (b + 1, b) for b in range(nb))
        lines.append("n 3 switch%s in=1,2%s cases=%s%s%s" % ("3" if three else "", ",5" if two else "", cases, " dflt=%d" % dflt if has_default else "",
                                                           " reload=1" if reload else ""))
        if three:
            lines += ["n 141 elem3 in=3 i=0", "n 142 elem3 in=3 i=1", "n 143 elem3 in=3 i=2", "n 4 rec in=141", "n 152 rec in=142", "n 153 rec in=143",
                      "endgraph", "run"]
        else:
            lines += ["n 4 rec in=3", "endgraph", "run"]
        scn = "\n".join(lines)
        # selection intervals
        ivs, cur, fail_at = [], None, None
        for t, k in kticks:
            if k in (7, 8) and not has_default:
                fail_at = t
                break
            b = (k - 1) if k not in (7, 8) else dflt
            if cur is None or reload or k != cur[1]:
                if cur is not None:
                    ivs.append((cur[0], t, cur[2]))
                cur = (t, k, b)
        if cur is not None:
            ivs.append((cur[0], fail_at if fail_at else horizon + 1, cur[2]))
        ips = []
        for (a, r, b) in ivs:
            if a >= r:
                continue
            fn, fout = branches[b]
            p = flat_program(pid, fn, fout, held_stream(ts1, a, r), 0, held_stream(ts2, a, r), a, r)
            pid += 1
            progs.append(p)
            ips.append((a, r, b, p))
        scns.append(scn)
        metas.append((ips, fail_at, horizon, outs3 if three else None))
    preds, res = dfcheck.predict(progs, tag="c12")
    chk.add_tlc(res, "branch-alone")
    traces = hg.run_driver("engine", scns)
    nfail = 0
    for scn, (ips, fail_at, horizon, outs3), tr in zip(scns, metas, traces):
        chk.count({"scn": scn})
        if isinstance(tr, dict):
            chk.violation("crash", "driver crashed/hung: %s" % json.dumps(tr)[:300], scn)
            continue
        ret = [e for e in tr if e["e"] == "ret"]
        if any(e["e"] in ("wirefail", "harnessfail") for e in tr) or not ret:
            chk.violation("run-failed", "switch_ scenario could not be wired / run", scn)
            continue
        if fail_at is not None:
            nfail += 1
            if ret[0]["ok"] != 0 or "no branch" not in ret[0]["msg"]:
                chk.violation("unmatched-key", "a key with no branch and no default must be an error (run returned %s)" % ret[0], scn)
                continue
        elif ret[0]["ok"] != 1:
            chk.violation("run-failed", "switch_ run raised: %s" % ret[0]["msg"][:200], scn)
            continue
        want = sorted((t, v) for a, r, b, p in ips for t, i, v in preds[p["id"]]["writes"] if i == p["_out"] and (fail_at is None or t < fail_at))
        got = sorted((e["t"], e["v"]) for e in tr if e["e"] == "rec" and e["id"] == 4 and (fail_at is None or e["t"] < fail_at))
        if outs3 is not None and want == got:
            # the other two leaves of the forwarding tree: the branch's first node and the held input itself
            for pos, rid in ((1, 152), (2, 153)):
                w2 = sorted((t, v) for a, r, b, p in ips for t, i, v in preds[p["id"]]["writes"]
                            if i == p["_idmap"][outs3[b][pos]] and (fail_at is None or t < fail_at))
                g2 = sorted((e["t"], e["v"]) for e in tr if e["e"] == "rec" and e["id"] == rid and (fail_at is None or e["t"] < fail_at))
                if w2 != g2:
                    want, got = [("leaf%d" % pos,)] + w2, [("leaf%d" % pos,)] + g2
                    break
        if want != got:
            chk.violation("switch-stream", "switch_ output: selected branches run alone (Dataflow.tla) give %s, switch_ produced %s" % (want, got),
                          "# C12 switch_\n" + scn + "\n")
            continue
        # the previous branch receives no further evaluations
        stopped = set()
        for e in tr:
            if e["e"] == "gstop":
                stopped.add(e["g"])
            elif e["e"] == "gstart":
                stopped.discard(e["g"])
            elif e["e"] in ("fn", "eval") and e.get("g") in stopped and e["g"] != 0:
                chk.violation("old-branch-evaluated", "a de-selected branch instance was evaluated after it was stopped: %s" % e, scn)
                break
    chk.notes["unmatched_key_scenarios"] = nfail
    chk.coverage["traces_validated_against_impl"] += len(scns)
    for k in (0, 1):
        chk.sample({"scenario": scns[k].splitlines()})
    chk.coverage["rule"] = ("2-3 branches of 1-3 nodes (stateful, self-scheduling, over one or two held inputs), optional default, reload on/off, key "
                            "histories with rapid flips, repeats of the same key, flips in the cycle of an input tick, returns to an earlier key, "
                            "unmatched keys; expectation = Dataflow.tla on each selection interval: the branch alone with fresh state on the held "
                            "inputs sampled at selection time then live; distinct = distinct scenario text")
    # level B of switch_node.cpp (SwitchNode.tla, ten named faults) and the instance discipline of the real switch node's branch
    # graphs judged by SwitchTrace.tla (level A, 22 clauses)
    import switch_model
    switch_model.run(chk, random.Random(hg.seed() * 7919 + 12012))


# ------------------------------------------------------------------------------------------------ C11 reduce
def check_c11(chk, rng):
    quick = chk.tier == "quick"
    nscn = 600 if quick else 5000
    hists, scns = [], []
    for s in range(nscn):
        big = s % 6 == 0
        # wide: more live entries than one 64-bit word of the combiner tree's bookkeeping, built at once, then single leaves tick
        wide = s % 50 == 7
        nk = rng.choice([8, 12, 20]) if big else rng.choice([2, 3, 5])
        horizon = rng.choice([10, 14]) if big else rng.choice([5, 7, 9])
        if wide:
            nk, horizon, big = rng.choice([66, 100, 130, 200]), 8, False
        comb = rng.choice(["add", "add", "min", "max", "gadd", "nadd"])
        zero = rng.choice([None, None, 0, 100, -7])
        present, ops = {}, []
        for t in range(1, horizon + 1):
            if rng.random() < 0.15:
                continue
            cyc, touched = [], set()
            phase = rng.random()
            if wide and not present:
                for k in range(1, nk + 1):
                    v = rng.choice([1, 2, 3, 5, 8])
                    cyc.append([k, v])
                    present[k] = v
                ops.append([t, cyc])
                continue
            for _ in range(rng.randint(1, 6 if big else (2 if wide else 3))):
                k = rng.randint(1, nk)
                if k in touched:
                    continue
                touched.add(k)
                # grow, churn, shrink to empty, regrow
                remove_p = 0.15 if phase < 0.5 else (0.2 if wide else 0.6)
                if k in present and rng.random() < remove_p:
                    cyc.append([k])
                    del present[k]
                else:
                    v = rng.choice([1, 2, 3, 5, 8, -4])
                    cyc.append([k, v])
                    present[k] = v
            if cyc:
                ops.append([t, cyc])
        if not ops:
            continue
        hid = len(hists) + 1
        hists.append({"id": hid, "comb": {"gadd": "add", "nadd": "add"}.get(comb, comb), "zero": -999999 if zero is None else zero, "ops": ops})
        script = ";".join("%d:%s" % (t, ",".join(("%d=%d" % (o[0], o[1])) if len(o) == 2 else ("-%d" % o[0]) for o in cyc)) for t, cyc in ops)
        scns.append("\n".join(["scn red%d" % hid, "opt start=1 end=%d" % (horizon + 1), "graph root", "n 1 dsrc script=" + script,
                               "n 2 reduce in=1 comb=%s%s" % (comb, "" if zero is None else " zero=%d" % zero), "n 3 rrec in=2,1", "endgraph", "run"]))
    d = hg.outdir("_work")
    path = os.path.join(d, "hist-c11-%d.json" % os.getpid())
    json.dump(hists, open(path, "w"))
    res = hg.tlc("Reduce", "Reduce.cfg", env={"HIST_FILE": path}, timeout=1800, metatag="c11")
    os.unlink(path)
    if res.violation:
        raise hg.MachineryError("Reduce.tla violates its own invariants:\n" + res.violation)
    chk.add_tlc(res, "fold")
    preds = {p["id"]: p["out"] for p in hg.printed_json(res, "RED")}
    traces = hg.run_driver("engine", scns)
    for h, scn, tr in zip(hists, scns, traces):
        chk.count({"scn": scn})
        if isinstance(tr, dict):
            chk.violation("crash", "driver crashed/hung: %s" % json.dumps(tr)[:300], scn)
            continue
        ret = [e for e in tr if e["e"] == "ret"]
        if any(e["e"] in ("wirefail", "harnessfail") for e in tr) or not ret or ret[0]["ok"] != 1:
            chk.violation("run-failed", "reduce scenario did not run to completion: %s" % [e for e in tr if e["e"] in ("wirefail", "harnessfail", "ret")], scn)
            continue
        want = {t: (ok, v) for t, ok, v in preds[h["id"]]}
        first = min(want)
        for e in tr:
            if e["e"] != "rrec":
                continue
            t = e["t"]
            if t < first:
                # before the collection first ticks the result is either not there yet or already the zero
                if e["ok"] == 1 and h["zero"] != -999999 and e["v"] != h["zero"]:
                    chk.violation("reduce-zero", "result %d before any element, zero is %d" % (e["v"], h["zero"]), scn)
                    break
                if e["ok"] == 1 and h["zero"] == -999999:
                    chk.violation("reduce-valid-empty", "result valid (%d) for an empty collection with no zero" % e["v"], scn)
                    break
                continue
            exp = want[max(x for x in want if x <= t)]
            if (e["ok"], e["v"] if e["ok"] else 0) != (exp[0], exp[1] if exp[0] else 0):
                chk.violation("reduce-fold", "cycle %d: Reduce.tla requires result %s, reduce produced %s"
                              % (t, "invalid" if not exp[0] else exp[1], "invalid" if not e["ok"] else e["v"]), "# C11 reduce\n" + scn + "\n")
                break
        else:
            # the result must have been observed in every cycle in which the collection changed
            seen = {e["t"] for e in tr if e["e"] == "rrec"}
            missing = [t for t in want if t not in seen]
            if missing:
                chk.violation("reduce-probe", "probe did not run in collection cycles %s" % missing, scn)
    chk.coverage["traces_validated_against_impl"] += len(scns)
    # fixed-size lists reduced with a lifted scalar function (the operator's fast path): elements become valid in any
    # order - index order, reverse, with gaps - and tick alone or together; level A = Dataflow.tla (lradd / lrmin / lrmax:
    # the fold over exactly the valid elements, in every cycle in which an element ticks)
    lprogs = []
    for k in range(60 if quick else 1000):
        horizon = rng.choice([6, 8])
        first = rng.sample(range(1, horizon), 3)          # each element's first tick: a random order of becoming valid
        nodes = []
        for j in range(3):
            later = sorted(rng.sample(range(first[j] + 1, horizon + 1), rng.randint(0, min(2, horizon - first[j]))))
            nodes.append(P.node("src", script=[[t, rng.choice([1, 2, 3, 5, 8, -4])] for t in [first[j]] + later]))
        for comb in rng.sample(["lradd", "lrmin", "lrmax"], rng.randint(1, 3)):
            nodes.append(P.node(comb, ins=[1, 2, 3]))
            nodes.append(P.node("rec", ins=[len(nodes)]))
        lprogs.append(P.program(80000 + k, nodes, start=1, end=horizon + 1))
    lpreds, lres = dfcheck.predict(lprogs, tag="c11list")
    chk.add_tlc(lres, "fixed-list")
    ltr = hg.run_driver("engine", [P.render(p) for p in lprogs])
    for p, tr in zip(lprogs, ltr):
        scn = P.render(p)
        chk.count({"scn": scn})
        if isinstance(tr, dict):
            chk.violation("crash", "driver crashed/hung: %s" % json.dumps(tr)[:300], scn)
            continue
        diff = dfcheck.compare(p, lpreds[p["id"]], tr)
        if diff:
            chk.violation("reduce-fixed-list", "reduce_ over a fixed list differs from the fold over the valid elements (Dataflow.tla): " + diff,
                          "# C11 fixed list\n" + scn + "\n")
    chk.coverage["traces_validated_against_impl"] += len(lprogs)
    for k in (0, 1):
        chk.sample({"scenario": scns[k].splitlines(), "required": preds[hists[k]["id"]]})
    # level B of reduce_node.cpp (ReduceTree.tla: dense leaves, key map, heap-indexed combiners with cached partial results,
    # swap-with-last removal, power-of-two growth, zero rules; model-checked with its named faults); its behaviours replayed,
    # ReduceTreeTrace.tla (level A) judges every recorded cycle
    import reduce_model
    reduce_model.run(chk, rng)
    chk.coverage["rule"] = ("random histories of add / update / remove with several events per cycle, growth through the power-of-two capacities, "
                            "shrink to empty and regrow, 2-20 keys; combiners add_ / min_ / max_ (library operators), a sub-graph combiner and a node "
                            "combiner; zero absent / identity / non-identity (100, -7: exposes any involvement of the zero); the result is read in "
                            "every cycle in which it or the collection ticks and must equal Reduce.tla's fold; distinct = distinct scenario text")


CHECKS = {"C10": check_c10, "C11": check_c11, "C12": check_c12}


def main():
    ap = argparse.ArgumentParser()
    ap.add_argument("pid")
    ap.add_argument("--tier", default=None)
    ap.add_argument("--replay", default=None)
    a = ap.parse_args()
    if a.tier:
        os.environ["VERIF_TIER"] = a.tier
    hg.build()
    if a.replay:
        scn = "\n".join(l for l in open(a.replay).read().splitlines() if not l.startswith("#"))
        tr = hg.run_driver("engine", [scn])[0]
        print("\n".join(json.dumps(e) for e in tr) if not isinstance(tr, dict) else json.dumps(tr))
        return 0
    chk = hg.Check(a.pid)
    rng = random.Random(hg.seed() * 7919 + int(a.pid[1:]))
    CHECKS[a.pid](chk, rng)
    return chk.finish()


if __name__ == "__main__":
    hg.main_wrapper(main)
