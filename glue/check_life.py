#!/usr/bin/env python3
"""C14: lifecycle under faults. Scenarios enumerate graph shape x fault set (node x phase x occurrence, singles and
pairs) x clean-up-on-error; the recorded lifecycle trace is validated by spec/LifeTrace.tla with TLC."""
import argparse
import itertools
import json
import os
import random
import sys

sys.path.insert(0, os.path.dirname(os.path.abspath(__file__)))
import hg
import tracecheck

KEEP = {"gstart", "nstart", "ustart", "nstarted", "nstartfail", "gstartfail", "eval", "ueval", "nstop", "ustop", "nstopped",
        "nstopfail", "uthrow", "ret", "released"}

SHAPES = {
    # name: (graph lines with {f<id>} placeholders for fault specs, node ids)
    "flat3": (["graph root", "n 1 lsrc cnt=3{f1}", "n 2 lpass in=1{f2}", "n 3 lsink in=2{f3}", "endgraph"], [1, 2, 3]),
    "fan": (["graph root", "n 1 lsrc cnt=2{f1}", "n 2 lpass in=1{f2}", "n 3 lpass in=1{f3}", "n 4 lsink in=2{f4}", "n 5 lsink in=3{f5}",
             "endgraph"], [1, 2, 3, 4, 5]),
    "nested": (["graph g0 nin=1", "n 4 lpass in=a0{f4}", "n 5 lsink in=4{f5}", "out 4", "endgraph",
                "graph root", "n 1 lsrc cnt=3{f1}", "n 2 lpass in=1{f2}", "n 3 nested g=0 in=2", "n 6 lsink in=3{f6}", "endgraph"],
               [1, 2, 4, 5, 6]),
    "nested2": (["graph g0 nin=1", "n 4 lpass in=a0{f4}", "n 5 lsink in=4{f5}", "out 4", "endgraph",
                 "graph g1 nin=1", "n 7 lpass in=a0{f7}", "n 8 nested g=0 in=7", "out 8", "endgraph",
                 "graph root", "n 1 lsrc cnt=2{f1}", "n 3 nested g=1 in=1", "n 6 lsink in=3{f6}", "endgraph"],
                [1, 4, 5, 6, 7]),
    # dynamically created children: one child graph per key (created on add, stopped on removal or with the map node)
    "map": (["graph g0 nin=1", "n 4 lpass in=a0{f4}", "n 5 lsink in=4{f5}", "out 4", "endgraph",
             "graph root", "n 1 dsrc script=1:1=1,2=2;2:1=3;3:-1;4:3=1,1=5", "n 2 map g=0 in=1", "n 3 drec in=2", "n 6 lsrc cnt=2{f6}", "endgraph"],
            [4, 5, 6]),
    # one active branch at a time: the old branch is stopped when the key changes
    "switch": (["graph g0 nin=1", "n 4 lpass in=a0{f4}", "out 4", "endgraph", "graph g1 nin=1", "n 5 lpass in=a0{f5}", "n 7 lsink in=5{f7}", "out 5", "endgraph",
                "graph root", "n 1 src script=1:1;3:2;4:1", "n 2 lsrc cnt=5{f2}", "n 3 switch in=1,2 cases=1:0,2:1", "n 6 lsink in=3{f6}", "endgraph"],
               [2, 4, 5, 6, 7]),
    # a branch whose result is forwarded from a graph nested inside it: the retired branch (and what is nested in it) must be
    # stopped when the key changes, not only when the switch itself stops
    "switchn": (["graph g2 nin=1", "n 8 lpass in=a0{f8}", "n 9 lsink in=8{f9}", "out 8", "endgraph",
                 "graph g0 nin=1", "n 4 nested g=2 in=a0", "out 4", "endgraph",
                 "graph g1 nin=1", "n 5 lpass in=a0{f5}", "n 7 nested g=2 in=5", "out 7", "endgraph",
                 "graph root", "n 1 src script=1:1;3:2;4:1", "n 2 lsrc cnt=5{f2}", "n 3 switch in=1,2 cases=1:0,2:1", "n 6 lsink in=3{f6}", "endgraph"],
                [2, 5, 6, 8, 9]),
    # reductions: one combiner child graph per element pair (tree) / per element (ordered chain); the collection grows, then
    # SHRINKS in the last cycle of the run, so retired children have no later evaluation to be swept by
    "reduce": (["graph root", "n 1 dsrc script=1:1=1;2:2=2,3=3;3:4=4;5:-2,-4", "n 2 reduce in=1 comb=gadd zero=0", "n 3 rrec in=2,1",
                "n 6 lsrc cnt=2{f6}", "endgraph"], [6]),
    "oreduce": (["graph root", "n 1 dsrc script=1:0=1;2:1=2;3:2=3;5:-2", "n 2 reduce in=1 comb=gadd zero=0 ordered=1", "n 3 rrec in=2,1",
                 "n 6 lsrc cnt=2{f6}", "endgraph"], [6]),
}
PHASES = ("start", "eval", "stop")


def scenario(name, shape, faults, cleanup):
    lines, ids = SHAPES[shape]
    by = {}
    for (i, ph, occ) in faults:
        by.setdefault(i, []).append("%s:%d" % (ph, occ))
    body = [l.format(**{"f%d" % i: (" fault=" + ",".join(by[i])) if i in by else "" for i in range(1, 10)}) for l in lines]
    return "\n".join(["scn " + name, "opt start=1 end=6 cleanup=%d" % cleanup] + body + ["run"])


def main():
    ap = argparse.ArgumentParser()
    ap.add_argument("pid")
    ap.add_argument("--tier", default=None)
    ap.add_argument("--replay", default=None)
    a = ap.parse_args()
    if a.tier:
        os.environ["VERIF_TIER"] = a.tier
    hg.build()
    if a.replay:
        scn = "\n".join(l for l in open(a.replay).read().splitlines() if not l.startswith("#"))
        tr = hg.run_driver("engine", [scn])[0]
        print("\n".join(json.dumps(e) for e in tr) if not isinstance(tr, dict) else json.dumps(tr))
        return 0
    chk = hg.Check("C14")
    rng = random.Random(hg.seed() * 31 + 14)
    cases = []
    for shape, (_, ids) in SHAPES.items():
        occs = (1, 2, 3) if shape in ("map", "switch", "switchn") else (1, 2)
        singles = [(i, ph, occ) for i in ids for ph in PHASES for occ in occs]
        sets = [()] + [(f,) for f in singles]
        pairs = [(f, g) for f in singles for g in singles if f < g and g[1] == "stop"]   # a second fault while stopping / rolling back
        if chk.tier == "quick":
            rng.shuffle(pairs)
            pairs = pairs[:40]
        sets += pairs
        for fs in sets:
            for cleanup in (1, 0):
                name = "%s-%s-c%d" % (shape, "+".join("%d%s%d" % f for f in fs) or "nofault", cleanup)
                cases.append((name, scenario(name, shape, fs, cleanup), cleanup, fs))
    # the same lifecycle in REAL-TIME mode: the run idles until the wall clock reaches its end time (or a fault ends it);
    # whatever ends it, nothing may be left started when run() returns
    for shape, (_, ids) in SHAPES.items():
        if shape in ("map", "switch", "switchn", "reduce", "oreduce"):
            continue
        fsets = [()] + [((i, ph, 1),) for i in ids for ph in ("eval", "stop")]
        rng.shuffle(fsets)
        for fs in fsets[:3 if chk.tier == "quick" else 12]:
            for cleanup in (1, 0):
                name = "rt-%s-%s-c%d" % (shape, "+".join("%d%s%d" % f for f in fs) or "nofault", cleanup)
                scn = scenario(name, shape, fs, cleanup).replace("opt start=1 end=6", "opt rt=%d start=1 end=6" % rng.choice([15, 40]))
                cases.append((name, scn, cleanup, fs))
    traces = hg.run_driver("engine", [c[1] for c in cases])
    for tr in traces:      # wall-clock times do not fit TLC's integers and are not used by LifeTrace
        if not isinstance(tr, dict):
            for e in tr:
                if "t" in e and isinstance(e["t"], int) and abs(e["t"]) > 10 ** 8:
                    e["t"] = 0
    items = []
    for k, ((name, scn, cleanup, fs), tr) in enumerate(zip(cases, traces)):
        chk.count({"scn": scn})
        if isinstance(tr, dict):
            chk.violation("crash:" + name, "driver crashed/hung: %s" % json.dumps(tr)[:300], "# %s\n%s\n" % (name, scn))
            continue
        items.append({"id": k, "prog": {"cleanup": cleanup}, "ev": tr})
    verdicts, st, trn = tracecheck.validate("LifeTrace", "LifeTrace.cfg", items, "c14", keep=KEEP)
    chk.coverage["states"] += st
    chk.coverage["transitions"] += trn
    chk.coverage["traces_validated_against_impl"] += len(items)
    fired = 0
    for it in items:
        k = it["id"]
        name, scn, cleanup, fs = cases[k]
        if any(e["e"] == "uthrow" for e in it["ev"]):
            fired += 1
        acc, why = verdicts[k]
        if why:
            chk.violation("life:%s:%s" % (why, name.split("-")[0]), "LifeTrace.tla rejects the trace at event %d: %s" % (acc + 1, why),
                          "# %s\n# %s\n%s\n" % (name, why, scn))
    chk.notes["scenarios_in_which_a_fault_fired"] = fired
    # level B (Lifecycle.tla): every fault set of size <= 2 x clean-up flag on flat3 / nested / nested2, model-checked with seven
    # named faults; its behaviours predict the exact observable event sequence of the real run (difference = DRIFT)
    import life_model
    life_model.run(chk, chk.tier == "quick")
    chk.coverage["exhaustive"] = chk.tier == "thorough"
    chk.coverage["rule"] = ("shapes flat / fan-out / nested / doubly nested / map_ with keys added and removed / switch_ with branch changes; fault sets: none, every single (node x phase in start/eval/stop x "
                            "occurrence 1-2), pairs whose second fault is a stop fault (quick: 40 sampled per shape, thorough: all); "
                            "clean-up on error on/off; distinct = distinct scenario text; non-trivial = all (each has a full lifecycle)")
    for name, scn, cleanup, fs in cases[:1] + cases[5:6] + cases[-1:]:
        chk.sample({"name": name, "scenario": scn.splitlines()})
    return chk.finish()


if __name__ == "__main__":
    hg.main_wrapper(main)
